#!/bin/bash
# usage: tools/seedcheck.sh <seed-dir> <name> <check-ID>...   (e.g. tools/seedcheck.sh /tmp/seed-C01 C01-a C01)
# Confirms a sub-agent's seeded change in its scratch worktree: existing suite passes with it, the demonstration fails with it and
# passes without it; then runs the named checks against the worktree and stores the change under /verif/seeded/<name>/.
set -u
wt="$1"; name="$2"; shift 2
cd "$wt" || exit 2
export GOFLAGS=-mod=mod GOPROXY=off
[ -f patch.diff ] || { echo "no patch.diff"; exit 2; }
demo=$(git status --porcelain | grep -E '^\?\? .*seed_demo_test.go$' | grep -v DEMO_ | awk '{print $2}' | head -1)
[ -n "$demo" ] || { echo "no seed_demo_test.go found"; exit 2; }
pkgdir=$(dirname "$demo")
# state: change applied?
if git diff --quiet; then git apply patch.diff || { echo "patch does not apply"; exit 2; }; fi
echo "== changed: $(git diff --stat | tail -1)"
mkdir -p /tmp/.demo.$$; mv "$demo" /tmp/.demo.$$/demo; for f in $(ls "$pkgdir"/DEMO_*_test.go 2>/dev/null); do mv "$f" /tmp/.demo.$$/; done
suite=$(go test -vet=off -count=1 ./... 2>&1 | grep -v "no test files"); 
mv /tmp/.demo.$$/demo "$demo"; rm -rf /tmp/.demo.$$
if echo "$suite" | grep -qE "^(FAIL|---)"; then echo "EXISTING SUITE FAILS WITH THE CHANGE"; echo "$suite" | tail -5; suite_ok=no; else echo "== existing suite passes with the change"; suite_ok=yes; fi
with=$(go test -vet=off -count=1 -run 'TestSeedDemo' ./$pkgdir 2>&1 | tail -3)
if echo "$with" | grep -q "^ok"; then echo "DEMO PASSES WITH THE CHANGE (bad)"; demo_with=pass; else echo "== demo fails with the change"; demo_with=fail; fi
git diff > /tmp/.patch.$$; git checkout -- . 
without=$(go test -vet=off -count=1 -run 'TestSeedDemo' ./$pkgdir 2>&1 | tail -3)
if echo "$without" | grep -q "^ok"; then echo "== demo passes without the change"; demo_without=pass; else echo "DEMO FAILS WITHOUT THE CHANGE (bad)"; echo "$without"; demo_without=fail; fi
git apply /tmp/.patch.$$; rm -f /tmp/.patch.$$
results=""
for id in "$@"; do
  out=$(cd /verif && VERIF_REPO="$wt" ./check "$id" --tier "${TIER:-quick}" 2>&1); rc=$?
  echo "== check $id rc=$rc"; echo "$out" | grep -E "^(VIOLATION|FAILURE-DETAIL|INCONCLUSIVE|OK)" | cut -c1-400 | head -4
  results="$results $id:rc=$rc"
done
d=/verif/seeded/$name; mkdir -p "$d"
cp patch.diff "$d/patch.diff"; cp "$demo" "$d/seed_demo_test.go.txt"; [ -f meta.json ] && cp meta.json "$d/agent_meta.json"
python3 - "$d" "$name" "$suite_ok" "$demo_with" "$demo_without" "$results" "$pkgdir" <<'PY'
import json,sys,os
d,name,suite,dw,dwo,results,pkg=sys.argv[1:8]
agent={}
try: agent=json.load(open(os.path.join(d,'agent_meta.json')))
except Exception: pass
meta={"name":name,"property":agent.get("property",name.split('-')[0]),"summary":agent.get("summary",""),"needs_to_manifest":agent.get("needs_to_manifest",""),
"files_changed":agent.get("files_changed",[]),"demo_package_dir":pkg,
"confirmed":{"existing_suite_passes_with_change":suite=="yes","demo_fails_with_change":dw=="fail","demo_passes_without_change":dwo=="pass"},
"checks_run_quick_tier":{r.split(':')[0]:r.split(':')[1] for r in results.split()},
"what_i_ran":"tools/seedcheck.sh: go test -vet=off -count=1 ./... with the change (demo moved aside); go test -run TestSeedDemo with and without the change; VERIF_REPO=<worktree> ./check <ID> --tier quick"}
json.dump(meta,open(os.path.join(d,'meta.json'),'w'),indent=1)
print("stored", d, meta["confirmed"], meta["checks_run_quick_tier"])
PY
rm -f "$d/agent_meta.json"
tag=$(echo -n "$wt" | sha256sum | cut -c1-8); rm -f /verif/.cache/bin/*.$tag.test; rm -rf /verif/.cache/out/*-$tag /verif/.cache/alt-$tag.mod /verif/.cache/alt-$tag.sum
