#!/usr/bin/env python3
"""Rewrite the seeded-changes table of DESIGN.md (section 9.5) from seeded/*/meta.json."""
import json, glob, re
rows = []
for d in sorted(glob.glob('/verif/seeded/*/meta.json')):
    m = json.load(open(d))
    res = "; ".join("%s %s" % (k, v) for k, v in m['checks_run_quick_tier'].items()).replace('|', '/')
    rows.append("| %s | %s | %s | %s |" % (m['name'], m['property'], (m.get('summary') or '').replace('|', '/').replace('\n', ' ')[:260], res))
table = "<!-- seeded-table-begin -->\n| change | property | what it does | quick-tier result |\n|---|---|---|---|\n" + "\n".join(rows) + "\n<!-- seeded-table-end -->"
s = open('/verif/DESIGN.md').read()
if '<!-- seeded-table-begin -->' in s:
    s = re.sub(r'<!-- seeded-table-begin -->.*?<!-- seeded-table-end -->', lambda _: table, s, flags=re.S)
else:
    a = s.index('| change | property | what it does | quick-tier result |')
    b = s.index('\n\n', a)
    s = s[:a] + table + s[b:]
open('/verif/DESIGN.md', 'w').write(s)
print(len(rows), "rows")
