#!/bin/bash
# usage: tools/seedround.sh <round-number> <suffix-letter>   Runs tools/seedcheck.sh (own check + related checks) for every finished
# sub-agent worktree /tmp/seed<round>-<ID> that has not been processed yet, three at a time, and prints a summary.
set -u
rnd="$1"; suf="$2"
declare -A REL=( [C01]="C09 C07" [C02]="C07 C04" [C03]="C04" [C04]="C03" [C05]="C04 C12" [C06]="" [C07]="C02 C01" [C08]="C01" [C09]="C01 C11" [C10]="C09" [C11]="C01" [C12]="C11" [C13]="C19" [C14]="C20 C12" [C15]="C04 C14" [C16]="C12" [C17]="C08" [C18]="" [C19]="C13 C11" [C20]="C14 C19" )
todo=()
for i in $(seq -w 1 20); do id=C$i; [ -f /tmp/seed$rnd-$id/meta.json ] && [ ! -f /tmp/seedcheck$rnd-$id.log ] && todo+=($id); done
[ ${#todo[@]} -eq 0 ] && { echo "nothing to do"; exit 0; }
run(){ id=$1; /verif/tools/seedcheck.sh /tmp/seed$rnd-$id $id-$suf $id ${REL[$id]} > /tmp/seedcheck$rnd-$id.log 2>&1; }
n=0
for id in "${todo[@]}"; do run $id & n=$((n+1)); if [ $((n%3)) -eq 0 ]; then wait; fi; done; wait
for id in "${todo[@]}"; do echo "##### $id: $(grep -E '^stored' /tmp/seedcheck$rnd-$id.log | sed 's/.*} //')"; grep -E "^(DEMO|EXIST|INCONC|no )" /tmp/seedcheck$rnd-$id.log | cut -c1-160; done
rm -f /verif/replays/*/fail-*
