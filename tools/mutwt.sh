#!/bin/bash
# usage: tools/mutwt.sh <file> '<old>' '<new>' <count> -- <ID>...
# Literal-replacement mutation in a PRIVATE scratch worktree of /repo (never touches /repo itself, safe to run
# concurrently); runs the named checks against it (VERIF_REPO) and removes the worktree.
set -u
file="$1"; old="$2"; new="$3"; cnt="$4"; shift 5
wt=$(mktemp -d /tmp/mutwt.XXXXXX)
rmdir "$wt"
git -C /repo worktree add -q --detach "$wt" HEAD || exit 2
trap 'git -C /repo worktree remove --force "$wt" >/dev/null 2>&1; rm -rf "$wt"; rm -f /verif/.cache/bin/*.$(echo -n "$wt" | sha256sum | cut -c1-8).test /verif/.cache/alt-$(echo -n "$wt" | sha256sum | cut -c1-8).*' EXIT
python3 - "$wt/$file" "$old" "$new" "$cnt" <<'PY' || exit 2
import sys
p,old,new,cnt=sys.argv[1],sys.argv[2],sys.argv[3],int(sys.argv[4])
s=open(p).read()
assert s.count(old)>=1, "pattern not found"
open(p,'w').write(s.replace(old,new,cnt))
PY
git -C "$wt" --no-pager diff --stat | tail -1
( cd "$wt" && GOFLAGS=-mod=mod GOPROXY=off go build ./... ) || { echo "mutant does not compile"; exit 2; }
if [ "${SUITE:-0}" = 1 ]; then (cd "$wt" && GOPROXY=off go test -vet=off -count=1 ./... 2>&1 | grep -v "no test files" | tail -3); fi
for id in "$@"; do
  out=$(cd /verif && VERIF_REPO="$wt" ./check "$id" --tier "${TIER:-quick}" 2>&1); rc=$?
  echo "== $id rc=$rc"; echo "$out" | grep -E "^(VIOLATION|FAILURE-DETAIL|INCONCLUSIVE|OK|KNOWN)" | cut -c1-600
done
