#!/usr/bin/env python3
"""Regenerate /verif/MANIFEST.json from harness/plan.py (run after editing the plan)."""
import json, os, sys
ROOT = os.path.dirname(os.path.dirname(os.path.abspath(__file__)))
sys.path.insert(0, os.path.join(ROOT, "harness"))
from plan import PLAN, NOT_APPLICABLE, HOOK_COMMITS

ids = [json.loads(l)["id"] for l in open(os.path.join(ROOT, "properties.jsonl"))]
checks = []
for pid in ids:
    if pid not in PLAN:
        continue
    c = PLAN[pid]
    checks.append({
        "property_id": pid,
        "quick_cmd": "./check %s --tier quick" % pid,
        "thorough_cmd": "./check %s --tier thorough" % pid,
        "evidence_file": "/verif/evidence/%s.json" % pid,
        "replay_cmd_template": "./check %s --replay {path}" % pid,
        "engine": "rapid-harness",
        "level_claimed": {"category": c["level"], "text": c["level_text"] + ((" " + c["level_more"]) if c.get("level_more") else ""), "design_ref": c.get("design_ref", "DESIGN.md section 4, " + pid)},
        "level_note": c["level_note"],
        "technique": c["technique"],
    })
na = [{"property_id": p, "reason": NOT_APPLICABLE[p]} for p in ids if p not in PLAN]
for p in na:
    assert p["reason"]
m = {
    "version": 1,
    "setup_cmd": "./check --build-all",
    "hooks": {
        "guard": "verif",
        "enable": "every harness build passes -tags verif (go test -c -tags verif ...); files guarded by //go:build verif in /repo are compiled only then",
        "baseline_off_cmd": "cd /repo && go test -mod=mod -vet=off -count=1 -timeout 25m ./...",
        "source_commits": HOOK_COMMITS,
        "add_only": True,
    },
    "engines": [{
        "name": "rapid-harness", "path": "/verif/harness",
        "serves_properties": [c["property_id"] for c in checks],
        "kind_free_text": "Go test binaries (pgregory.net/rapid v1.3.0 properties and state machines, exhaustive enumerators, native go fuzz targets in the thorough tier) with explicit reference-model / differential / round-trip oracles; driver /verif/check merges shard statistics into evidence",
    }],
    "checks": checks,
    "notes": "Property-based testing and fuzzing only. Exit 0/1/2 = held / VIOLATION printed / inconclusive (infrastructure). known_findings.json lists open and fixed genuine defects.",
    "not_applicable": na,
}
json.dump(m, open(os.path.join(ROOT, "MANIFEST.json"), "w"), indent=1)
print("MANIFEST.json: %d checks, %d not_applicable" % (len(checks), len(na)))
