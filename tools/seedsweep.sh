#!/bin/bash
# usage: tools/seedsweep.sh [name-glob]   Re-runs, for every stored seeded change, the quick tier of each check that its meta.json lists
# as having reported it (rc=1; ONLY="C02 C07" restricts the checks) against a scratch worktree with the change applied, and reports any that no longer does.
set -u
cd /verif
glob="${1:-*}"
bad=0; n=0
for d in seeded/$glob/; do
  name=$(basename "$d")
  ids=$(python3 -c "import json,sys; m=json.load(open('$d/meta.json')); print(' '.join(k for k,v in m.get('checks_run_quick_tier',{}).items() if v=='rc=1'))")
  if [ -n "${ONLY:-}" ]; then ids=$(for i in $ids; do case " $ONLY " in *" $i "*) echo -n "$i ";; esac; done); fi   # ONLY="C02 C07": just these checks
  [ -n "$ids" ] || { echo "SKIP $name: no detecting check recorded"; continue; }
  wt=/tmp/sweep-$name
  git -C /repo worktree add -q --detach "$wt" HEAD || exit 2
  if ! git -C "$wt" apply "/verif/$d/patch.diff" 2>/dev/null && ! git -C "$wt" apply --3way "/verif/$d/patch.diff" 2>/dev/null; then echo "PATCH-DOES-NOT-APPLY $name"; bad=$((bad+1)); git -C /repo worktree remove --force "$wt"; continue; fi
  for id in $ids; do
    n=$((n+1))
    out=$(VERIF_REPO="$wt" ./check "$id" 2>&1); rc=$?
    if [ $rc -eq 1 ]; then echo "DETECTED $name by $id"; else echo "MISSED $name by $id rc=$rc"; bad=$((bad+1)); fi
  done
  tag=$(echo -n "$wt" | sha256sum | cut -c1-8); rm -f /verif/.cache/bin/*.$tag.test; rm -rf /verif/.cache/out/*-$tag /verif/.cache/alt-$tag.mod /verif/.cache/alt-$tag.sum
  git -C /repo worktree remove --force "$wt"
done
rm -f /verif/replays/*/fail-*
echo "swept $n check runs, $bad problems"
