#!/bin/bash
# usage: tools/mutpy.sh <file> <old> <new> <count> -- <ID>...   literal replace mutation in /repo, run checks, revert
set -u
file="$1"; old="$2"; new="$3"; cnt="$4"; shift 5
cd /repo || exit 2
if ! git diff --quiet; then echo "/repo is dirty; refusing"; exit 2; fi
trap 'git -C /repo checkout -- . ' EXIT
python3 - "$file" "$old" "$new" "$cnt" <<'PY' || exit 2
import sys
p,old,new,cnt=sys.argv[1],sys.argv[2],sys.argv[3],int(sys.argv[4])
s=open(p).read()
assert s.count(old)>=1, "pattern not found"
open(p,'w').write(s.replace(old,new,cnt))
PY
git --no-pager diff --stat | tail -1
( cd /repo && GOFLAGS=-mod=mod GOPROXY=off go build ./... ) || { echo "mutant does not compile"; exit 2; }
if [ "${SUITE:-0}" = 1 ]; then (cd /repo && GOPROXY=off go test -vet=off -count=1 . 2>&1 | tail -1); fi
for id in "$@"; do
  out=$(cd /verif && ./check "$id" --tier "${TIER:-quick}" 2>&1); rc=$?
  echo "== $id rc=$rc"; echo "$out" | grep -E "^(VIOLATION|FAILURE-DETAIL|INCONCLUSIVE|OK|KNOWN)" | cut -c1-500
done
