#!/bin/bash
# usage: tools/mutcheck.sh <patch-or-'sed:<file>:<expr>'> <ID> [<ID>...]   (tier from $TIER, default quick)
# Applies a mutation to /repo, runs the named checks, and ALWAYS reverts /repo afterwards.
set -u
mut="$1"; shift
cd /repo || exit 2
if ! git diff --quiet; then echo "/repo is dirty; refusing"; exit 2; fi
trap 'git -C /repo checkout -- . ' EXIT
case "$mut" in
  sed:*) IFS=: read -r _ file expr <<<"$mut"; sed -i -E "$expr" "/repo/$file" ;;
  *) git apply "$mut" || { echo "patch does not apply"; exit 2; } ;;
esac
git --no-pager diff --stat | tail -1
if git diff --quiet; then echo "MUTATION HAD NO EFFECT"; exit 2; fi
( cd /repo && GOFLAGS=-mod=mod GOPROXY=off go build ./... ) || { echo "mutant does not compile"; exit 2; }
for id in "$@"; do
  out=$(cd /verif && ./check "$id" --tier "${TIER:-quick}" 2>&1); rc=$?
  echo "== $id rc=$rc"; echo "$out" | grep -E "^(VIOLATION|FAILURE-DETAIL|INCONCLUSIVE|OK|KNOWN)" | cut -c1-400
done
