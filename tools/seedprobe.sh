#!/bin/bash
# usage: tools/seedprobe.sh <seed-name> <check-ID> [verif-seed ...]   Runs one check at several VERIF_SEED values against a stored seeded change.
set -u
cd /verif
name="$1"; id="$2"; shift 2
wt=/tmp/probe-$name-$id
git -C /repo worktree add -q --detach "$wt" HEAD || exit 2
git -C "$wt" apply --3way "/verif/seeded/$name/patch.diff" >/dev/null 2>&1 || git -C "$wt" apply "/verif/seeded/$name/patch.diff" || { echo "PATCH-DOES-NOT-APPLY $name"; git -C /repo worktree remove --force "$wt"; exit 2; }
for s in "${@:-1}"; do
  out=$(VERIF_REPO="$wt" ./check "$id" --seed "$s" ${TIER:+--tier $TIER} 2>&1); rc=$?
  echo "$name $id seed=$s rc=$rc $(echo "$out" | grep -E '^(OK|VIOLATION)' | head -1 | cut -c1-80)"
done
tag=$(echo -n "$wt" | sha256sum | cut -c1-8); rm -f /verif/.cache/bin/*.$tag.test; rm -rf /verif/.cache/out/*-$tag /verif/.cache/alt-$tag.mod /verif/.cache/alt-$tag.sum
git -C /repo worktree remove --force "$wt"
