// C17 — CleanPath returns the canonical path.
package c17

import (
	"encoding/json"
	"fmt"
	"net/http"
	"net/http/httptest"
	"os"
	"strings"
	"testing"

	"github.com/tigerwill90/fox"
	"pgregory.net/rapid"

	"verif/ref"
	"verif/stats"
)

func TestMain(m *testing.M) {
	stats.Init("C17")
	stats.RegisterReplay("cleanpath", func(raw json.RawMessage) error {
		var c cleanCase
		if err := json.Unmarshal(raw, &c); err != nil {
			return err
		}
		return checkClean(string(c.Input))
	})
	stats.RegisterReplay("redirect-guard", func(raw json.RawMessage) error {
		var c guardCase
		if err := json.Unmarshal(raw, &c); err != nil {
			return err
		}
		return checkGuard(&c)
	})
	os.Exit(stats.Finish(m.Run()))
}

func TestReplay(t *testing.T) { stats.RunReplays(t) }

type cleanCase struct {
	Input stats.B `json:"input"`
}

func nonTrivial(in string) bool {
	if in == "" {
		return false
	}
	for i, e := range strings.Split(in, "/") {
		if e == "." || e == ".." || (e == "" && i > 0) {
			return true
		}
	}
	return false
}

// checkClean is the oracle: equality with the split-and-stack reference, idempotence, no panic.
func checkClean(in string) (err error) {
	defer func() {
		if r := recover(); r != nil {
			err = fmt.Errorf("CleanPath(%q) panicked: %v", in, r)
		}
	}()
	got := fox.CleanPath(in)
	want := ref.CleanPath(in)
	if got != want {
		return fmt.Errorf("CleanPath(%q) = %q, lexical definition gives %q", in, got, want)
	}
	if again := fox.CleanPath(got); again != got {
		return fmt.Errorf("not idempotent: CleanPath(%q) = %q but CleanPath of that = %q", in, got, again)
	}
	return nil
}

// firstRewrite is the length of the longest prefix of in that CleanPath can keep as it is (approximation for the
// class histogram: position of the first empty / "." / ".." element).
func firstRewrite(in string) int {
	pos := 0
	for i, e := range strings.Split(in, "/") {
		if i > 0 && (e == "" || e == "." || e == "..") {
			return pos
		}
		pos += len(e) + 1
	}
	return len(in)
}

func judge(in string) bool {
	stats.Eval()
	if nonTrivial(in) {
		stats.NonTrivial(in)
		if len(in) > 128 {
			stats.Class("longer-than-128-bytes")
			if i := firstRewrite(in); i > 128 {
				stats.Class("first-rewrite-beyond-byte-128")
			}
		}
	}
	if err := checkClean(in); err != nil {
		stats.Fail("cleanpath", cleanCase{stats.B(in)}, "%v", err)
		return false
	}
	return true
}

func enumerate(t *testing.T, alpha []string, maxLen int) {
	shard, shards := stats.EnvInt("VERIF_SHARD", 0), stats.EnvInt("VERIF_SHARDS", 1)
	cnt := 0
	// shortest strings first, so that the first failure is a minimal one
	for want := 0; want <= maxLen && !stats.Failed(); want++ {
		n := 0
		var rec func(prefix string, depth int)
		rec = func(prefix string, depth int) {
			if stats.Failed() {
				return
			}
			// shards split the space by the first two symbols; shorter strings belong to shard 0
			if depth == 2 {
				n++
				if n%shards != shard {
					return
				}
			}
			if depth == want {
				if depth >= 2 || shard == 0 {
					if cnt++; cnt%40000 == 7 {
						stats.Sample(cleanCase{stats.B(prefix)})
					}
					if !judge(prefix) {
						t.Errorf("violation on %q", prefix)
					}
				}
				return
			}
			for _, a := range alpha {
				rec(prefix+a, depth+1)
			}
		}
		rec("", 0)
	}
}

func TestExhaustive(t *testing.T) {
	l1 := stats.EnvInt("C17_LEN_ASCII", 9)
	l2 := stats.EnvInt("C17_LEN_RUNE", 7)
	stats.Note("exhaustive_ascii", fmt.Sprintf("all strings over {/ . a %%} up to length %d", l1))
	stats.Note("exhaustive_rune", fmt.Sprintf("all strings over {/ . a é} up to %d symbols", l2))
	enumerate(t, []string{"/", ".", "a", "%"}, l1)
	enumerate(t, []string{"/", ".", "a", "é"}, l2)
}

var longTokens = []string{"/", "/", "/", ".", "..", "a", "ab", "...", ".a", "a.", "%2F", "%2e", "é", "日本", "//", "/./", "/../", "x"}

func genLong(t *rapid.T) string {
	target := rapid.IntRange(90, 300).Draw(t, "len")
	var sb strings.Builder
	if rapid.Bool().Draw(t, "rooted") {
		sb.WriteByte('/')
	}
	// often: a long prefix that is already canonical, so that the first rewrite (and the lazy buffer
	// allocation) happens at an offset beyond the 128-byte stack buffer
	if rapid.IntRange(0, 2).Draw(t, "cleanprefix") == 0 {
		clean := rapid.IntRange(100, 220).Draw(t, "cleanlen")
		sb.Reset()
		for sb.Len() < clean {
			sb.WriteByte('/')
			sb.WriteString(rapid.SampledFrom([]string{"a", "ab", "abc", "x.y", "é", "seg-1", "..a", "a..", "..."}).Draw(t, "cseg"))
		}
		if target < sb.Len()+6 {
			target = sb.Len() + 6
		}
	}
	for sb.Len() < target {
		sb.WriteString(rapid.SampledFrom(longTokens).Draw(t, "tok"))
	}
	s := sb.String()
	// land exactly around the 128-byte stack buffer often
	if rapid.IntRange(0, 2).Draw(t, "edge") == 0 && len(s) > 131 {
		s = s[:rapid.IntRange(125, 131).Draw(t, "cut")]
	}
	return s
}

func TestRandomLong(t *testing.T) {
	rapid.Check(t, func(t *rapid.T) {
		in := genLong(t)
		stats.Sample(cleanCase{stats.B(in)})
		if !judge(in) {
			t.Fatalf("violation on %q", in)
		}
	})
}

// arbitrary bytes: crash freedom and agreement beyond the structured alphabet
func TestRandomBytes(t *testing.T) {
	rapid.Check(t, func(t *rapid.T) {
		in := string(rapid.SliceOfN(rapid.Byte(), 0, 200).Draw(t, "bytes"))
		if !judge(in) {
			t.Fatalf("violation on %q", in)
		}
	})
}

// ---- redirect guard: a trailing-slash redirect is only issued for clean paths ----

type guardCase struct {
	Routes []string `json:"routes"`
	Method string   `json:"method"`
	Path   stats.B  `json:"path"`
}

var guardRoutes = []string{"/{p}", "/{p}/", "/a/{p}", "/a/{p}/", "/*{c}", "/*{c}/", "/a/*{c}/", "/a/*{c}/b", "/a/*{c}/b/", "/{p}/{q}/", "/{p}/{q}", "/a", "/a/", "/a/b", "/a/b/", "/..", "/../", "/./", "/.", "/a/../", "/a/./b"}
var guardSegs = []string{"a", "b", ".", "..", "...", "", "a.", "x"}

func checkGuard(c *guardCase) (err error) {
	defer func() {
		if r := recover(); r != nil {
			err = fmt.Errorf("panic: %v", r)
		}
	}()
	f, e := fox.New(fox.WithRedirectTrailingSlash(true))
	if e != nil {
		return nil
	}
	for _, r := range c.Routes {
		_, _ = f.Handle(c.Method, r, func(c fox.Context) { c.Writer().WriteHeader(200) })
	}
	path := string(c.Path)
	req := httptest.NewRequest(c.Method, "/", nil)
	req.URL.Path = path
	req.URL.RawPath = ""
	w := httptest.NewRecorder()
	f.ServeHTTP(w, req)
	redirected := w.Code == http.StatusMovedPermanently || w.Code == http.StatusPermanentRedirect
	clean := ref.CleanPath(path) == path
	_, tsr := f.Reverse(c.Method, "", path)
	if tsr {
		stats.Class("guard:tsr-recommended")
		if !clean {
			stats.Class("guard:tsr-on-unclean-path")
			stats.NonTrivial("guard|" + strings.Join(c.Routes, ",") + "|" + path)
		}
	}
	if redirected && !clean {
		return fmt.Errorf("routes %q: %s %q is not in canonical form (canonical %q) but was redirected with %d to %q",
			c.Routes, c.Method, path, ref.CleanPath(path), w.Code, w.Header().Get("Location"))
	}
	return nil
}

func TestRedirectGuard(t *testing.T) {
	rapid.Check(t, func(t *rapid.T) {
		c := &guardCase{
			Routes: rapid.SliceOfNDistinct(rapid.SampledFrom(guardRoutes), 1, 6, rapid.ID[string]).Draw(t, "routes"),
			Method: rapid.SampledFrom([]string{"GET", "POST"}).Draw(t, "method"),
		}
		segs := rapid.SliceOfN(rapid.SampledFrom(guardSegs), 1, 5).Draw(t, "segs")
		p := "/" + strings.Join(segs, "/")
		if rapid.Bool().Draw(t, "slash") {
			p += "/"
		}
		c.Path = stats.B(p)
		stats.Eval()
		stats.Sample(c)
		if err := checkGuard(c); err != nil {
			stats.Fail("redirect-guard", c, "%v", err)
			t.Fatalf("%v", err)
		}
	})
}

func FuzzCleanPath(f *testing.F) {
	for _, s := range []string{"", "/", "//", "/.", "/..", "/a/./b/../c/", "a/b/..", strings.Repeat("/a", 70), strings.Repeat("/..", 50) + "/x/."} {
		f.Add(s)
	}
	f.Fuzz(func(t *testing.T, in string) {
		if err := checkClean(in); err != nil {
			t.Fatalf("%v", err)
		}
	})
}
