// C09 — hostname routes match the whole host, path-only routes are the fallback.
package c09

import (
	"encoding/json"
	"fmt"
	"github.com/tigerwill90/fox"
	"os"
	"reflect"
	"sort"
	"strings"
	"testing"

	"pgregory.net/rapid"

	"verif/gen"
	"verif/ref"
	"verif/rt"
	"verif/stats"
)

func TestMain(m *testing.M) {
	stats.Init("C09")
	stats.RegisterReplay("host", func(raw json.RawMessage) error {
		var c Case
		if err := json.Unmarshal(raw, &c); err != nil {
			return err
		}
		return checkCase(&c, false)
	})
	os.Exit(stats.Finish(m.Run()))
}

func TestReplay(t *testing.T) { stats.RunReplays(t) }

type Case struct {
	G      rt.Global      `json:"global"`
	Routes []rt.RouteSpec `json:"routes"`
	Reqs   []rt.Req       `json:"reqs"`
	// AnyHosts are arbitrary (possibly malformed) Host values used only for the metamorphic
	// relation "a method without hostname routes ignores the Host altogether".
	AnyHosts []stats.B `json:"any_hosts,omitempty"`
	// Detour are routes registered after Routes and deleted again before any request: hostnames that extend or truncate a
	// registered hostname. The registered set is Routes either way.
	Detour []rt.RouteSpec `json:"detour,omitempty"`
	// ViaTxn: every request is also looked up through a write transaction, not yet committed, in which the hostname routes
	// were registered on a router that so far held the path-only routes: the transaction reads its own writes.
	ViaTxn bool `json:"via_txn,omitempty"`
	// TxnPaths (with ViaTxn): the other way round - the router holds the hostname routes and the transaction registers the
	// path-only ones, so the fallback to path-only routes has to read the transaction's own writes
	TxnPaths bool `json:"txn_paths,omitempty"`
}

func hasBoth(pats []string) bool {
	p, c := false, false
	for _, s := range pats {
		for _, w := range ref.Wildcards(s) {
			if w.CatchAll {
				c = true
			} else {
				p = true
			}
		}
	}
	return p && c
}

func hasHostRoutes(pats []string) bool {
	for _, p := range pats {
		if !strings.HasPrefix(p, "/") {
			return true
		}
	}
	return false
}

func sameParams(a, b []ref.Param) bool {
	if len(a) == 0 && len(b) == 0 {
		return true
	}
	return reflect.DeepEqual(a, b)
}

func adjust(p string) string {
	if len(p) > 1 && strings.HasSuffix(p, "/") {
		return p[:len(p)-1]
	}
	return p + "/"
}

func checkCase(c *Case, count bool) error {
	r, err := rt.NewDetour(c.G, c.Routes, c.Detour)
	if err != nil {
		if len(c.Detour) > 0 && r == nil && strings.HasPrefix(err.Error(), "detour route") {
			return err
		}
		return nil
	}
	if count && len(c.Detour) > 0 {
		stats.Class("detour:neighbour-hostnames-registered-and-deleted")
	}
	var wtx *fox.Txn
	if c.ViaTxn {
		// committed first: the path-only routes (or, with TxnPaths, the hostname routes); the others inside the transaction
		var first []rt.RouteSpec
		for _, s := range r.Routes {
			if strings.HasPrefix(s.Pattern, "/") != c.TxnPaths {
				first = append(first, s)
			}
		}
		if r2, err := rt.New(c.G, first); err == nil && len(r2.Routes) == len(first) {
			wtx = r2.F.Txn(true)
			defer wtx.Abort()
			for _, s := range r.Routes {
				if strings.HasPrefix(s.Pattern, "/") == c.TxnPaths {
					if _, err := wtx.Handle(s.Method, s.Pattern, r2.Sink.Handler(s.Pattern), rt.RouteOptions(s.TS)...); err != nil {
						return fmt.Errorf("routes %v: registering %s %s inside a write transaction on a router holding the other (hostname or path-only) routes: %v", r.Routes, s.Method, s.Pattern, err)
					}
				}
			}
			if count {
				stats.Class("also-observed-through-an-uncommitted-write-transaction")
			}
		}
	}
	for _, q := range c.Reqs {
		if d := rt.IterReverseDiff(r.F, q.Host, q.Path); d != "" {
			return fmt.Errorf("options=%+v routes=%v: %s", c.G, r.Routes, d)
		}
		pats := r.Patterns(q.Method)
		if rt.ExcludedE(q.Path, pats) {
			if count {
				stats.Excluded("open finding E: request contains '*' and the method has both a parameter and a catch-all")
			}
			continue
		}
		host := ref.StripHost(q.Host)
		want, ok := ref.LookupAll(pats, host, q.Path)
		if !ok {
			if count {
				stats.Excluded("catch-all value would start with '/' (undocumented for infix catch-alls)")
			}
			continue
		}
		wantPat := ""
		if want.Route >= 0 {
			wantPat = pats[want.Route]
		}
		desc := fmt.Sprintf("routes(%s)=%q request Host=%q (stripped %q) path=%q: label-for-label matching selects %q tsr=%v params=%v (hostname routes used: %v); ",
			q.Method, pats, q.Host, host, q.Path, wantPat, want.Tsr, want.Params, want.HostMode)
		got := rt.DoLookup(r.F, q)
		if got.Pattern != wantPat || got.Tsr != want.Tsr {
			return fmt.Errorf("%sLookup returned %v", desc, got)
		}
		if wantPat != "" {
			target := q.Path
			if want.Tsr {
				target = adjust(q.Path)
			}
			if msg := ref.CheckParams(wantPat, got.Params, host, target); msg != "" {
				return fmt.Errorf("%sLookup params %v: %s", desc, got.Params, msg)
			}
			if ref.UniqueSplit(wantPat) && !sameParams(got.Params, want.Params) {
				return fmt.Errorf("%sLookup params %v", desc, got.Params)
			}
		}
		if rv := rt.DoReverse(r.F, q); rv.Pattern != wantPat || rv.Tsr != want.Tsr {
			return fmt.Errorf("%sReverse returned %v", desc, rv)
		}
		if wtx != nil {
			if o := rt.DoLookup(wtx, q); o.Pattern != wantPat || o.Tsr != want.Tsr {
				return fmt.Errorf("%sTxn.Lookup of the write transaction that registered part of the routes returned %v", desc, o)
			}
			if o := rt.DoReverse(wtx, q); o.Pattern != wantPat || o.Tsr != want.Tsr {
				return fmt.Errorf("%sTxn.Reverse of the write transaction that registered part of the routes returned %v", desc, o)
			}
		}
		sv := r.ServeReq(q)
		if len(sv.Hits) != 1 {
			return fmt.Errorf("%sServeHTTP ran %d handlers", desc, len(sv.Hits))
		}
		h := sv.Hits[0]
		if wantPat != "" && !want.Tsr {
			if h.Kind != "route" || h.Pattern != wantPat || !sameParams(h.Params, got.Params) {
				return fmt.Errorf("%sServeHTTP ran %s handler pattern=%q params=%v", desc, h.Kind, h.Pattern, h.Params)
			}
		} else if h.Kind == "route" && !(want.Tsr && h.Pattern == wantPat) {
			return fmt.Errorf("%sServeHTTP ran the route handler of %q", desc, h.Pattern)
		}
		// a method whose routes have no hostname ignores the Host altogether
		if !hasHostRoutes(pats) {
			base := rt.DoLookup(r.F, rt.Req{Method: q.Method, Host: "", Path: q.Path})
			for _, ah := range c.AnyHosts {
				o := rt.DoLookup(r.F, rt.Req{Method: q.Method, Host: string(ah), Path: q.Path})
				if o.Pattern != base.Pattern || o.Tsr != base.Tsr || !sameParams(o.Params, base.Params) {
					return fmt.Errorf("routes(%s)=%q have no hostname, path=%q: with an empty Host Lookup returned %v but with Host=%q it returned %v", q.Method, pats, q.Path, base, string(ah), o)
				}
				if count {
					stats.Class("metamorphic:host-ignored-without-hostname-routes")
				}
			}
		}
		if count {
			classify(pats, q, host, want)
		}
	}
	return nil
}

func classify(pats []string, q rt.Req, host string, want ref.Result) {
	if !hasHostRoutes(pats) {
		stats.Class("method-without-hostname-routes")
		return
	}
	switch {
	case want.HostMode && want.Tsr:
		stats.Class("hostname-route:trailing-slash-match")
	case want.HostMode:
		stats.Class("hostname-route:direct")
	case want.Route >= 0:
		stats.Class("fallback-to-path-only:matched")
	default:
		stats.Class("no-route")
	}
	if q.Host != host {
		stats.Class("host-with-port-or-trailing-dot")
	}
	// near miss: the Host extends, truncates or neighbours a registered hostname
	near := false
	for _, p := range pats {
		if p[0] == '/' {
			continue
		}
		ph := p[:strings.IndexByte(p, '/')]
		static := ph
		if i := strings.IndexByte(ph, '{'); i >= 0 {
			static = ph[:i]
		}
		if host != ph && static != "" && (strings.HasPrefix(host, static) || strings.HasSuffix(host, static) || strings.Contains(host, static)) {
			near = true
		}
		if host != "" && host != ph && strings.HasPrefix(ph, host) {
			near = true
		}
	}
	if near && !want.HostMode {
		stats.Class("near-miss-host:extension/truncation/sibling")
	}
	if near || want.HostMode {
		sp := append([]string(nil), pats...)
		sort.Strings(sp)
		stats.NonTrivial(q.Method + "|" + strings.Join(sp, " ") + "|" + q.Host + "|" + q.Path)
	}
}

func genCase(t *rapid.T) *Case {
	c := &Case{}
	c.G.TS = gen.Pick(t, []int{rt.TSNone, rt.TSNone, rt.TSIgnore, rt.TSRedirect}, "globalTS")
	c.G.OneTxn = gen.Chance(t, 1, 4, "onetxn")
	n := gen.IntR(t, 1, 8, "nroutes")
	var pool []string
	for i := 0; i < n; i++ {
		p := gen.Pattern(t, pool, 1, false)
		pool = append(pool, p)
		m := gen.Pick(t, []string{"GET", "GET", "GET", "POST"}, "method")
		c.Routes = append(c.Routes, rt.RouteSpec{Method: m, Pattern: p})
	}
	c.ViaTxn = gen.Chance(t, 1, 3, "viatxn")
	c.TxnPaths = c.ViaTxn && gen.Chance(t, 1, 2, "txnpaths")
	if gen.Chance(t, 1, 3, "detour") {
		for i, nd := 0, gen.IntR(t, 1, 2, "ndetour"); i < nd; i++ {
			src := gen.Pick(t, c.Routes, "dsrc")
			j := strings.IndexByte(src.Pattern, '/')
			if j <= 0 {
				continue
			}
			h, rest := src.Pattern[:j], src.Pattern[j:]
			switch gen.IntR(t, 0, 3, "dkind") {
			case 0:
				h += gen.Pick(t, []string{"a", "b", "c", "-a"}, "dsuffix")
			case 1:
				h += gen.Pick(t, []string{".a", ".b", ".au"}, "dlabel")
			case 2:
				h = gen.Pick(t, []string{"a", "b", "a."}, "dprefix") + h
			default:
				if len(h) > 1 {
					h = h[:gen.IntR(t, 1, len(h)-1, "dcut")]
				}
			}
			if gen.Chance(t, 1, 3, "dpath") {
				rest = gen.Pick(t, []string{"/", "/a", "/b", "/{x}"}, "drest")
			}
			c.Detour = append(c.Detour, rt.RouteSpec{Method: src.Method, Pattern: h + rest})
		}
	}
	if gen.Chance(t, 1, 20, "longtwins") {
		// two hostnames that agree on their first 31 to 100 bytes, registered after everything else
		n := gen.Pick(t, []int{31, 32, 33, 40, 63, 64, 65, 100}, "shared")
		hstem := "tenant-a.api.eu-central-1.internal.example-" + strings.Repeat("x", max(n-43, 0))
		hstem = hstem[:max(n, 20)]
		hstem = strings.TrimRight(hstem, ".-")
		for _, p := range []string{hstem + "a.com/", hstem + "b.org/", hstem + "b.org/{p}", "/"} {
			c.Routes = append(c.Routes, rt.RouteSpec{Method: "GET", Pattern: p})
		}
		for _, h := range []string{hstem + "a.com", hstem + "b.org", hstem + "b.org:8080", hstem + "c.org", hstem[:10] + "b.org", hstem} {
			c.Reqs = append(c.Reqs, rt.Req{Method: "GET", Host: h, Path: "/"}, rt.Req{Method: "GET", Host: h, Path: "/zz"})
		}
	}
	if gen.Chance(t, 1, 20, "longhosts") {
		// request hosts longer than any hostname that can be registered (255 bytes): a registered name of 251 bytes followed
		// by a port or a dot, and a parameter label standing for a very long label part
		lab := func(ch string) string { return strings.Repeat(ch, 62) }
		long := lab("a") + "." + lab("b") + "." + lab("c") + "." + lab("d") // 251 bytes
		for _, p := range []string{long + "/items", "{tenant}.example.org/items", "/items", "x{rest}.example.net/items"} {
			c.Routes = append(c.Routes, rt.RouteSpec{Method: "GET", Pattern: p})
		}
		n := gen.Pick(t, []int{200, 243, 244, 245, 260, 1000}, "labellen")
		for _, h := range []string{long, long + ":8080", long + ".", long + ".:443", long + "e", strings.Repeat("t", n) + ".example.org", strings.Repeat("t", n) + ".example.org:80", "x" + strings.Repeat("r", n) + ".example.net", strings.Repeat("t", n) + ".example.com"} {
			c.Reqs = append(c.Reqs, rt.Req{Method: "GET", Host: h, Path: "/items"})
		}
	}
	if gen.Chance(t, 1, 20, "widehosts") {
		// more than fifty hostnames that differ in their first byte (the children of the method's root are then searched by
		// bisection), and only then several routes behind one parameter label and behind a prefixed one
		first := "abcdefghijklmnopqrstuvwxyz0123456789ABCDEFGHIJKLMNOPQRSTUVWXYZ"[:gen.IntR(t, 48, 58, "nfirst")]
		for _, ch := range first {
			c.Routes = append(c.Routes, rt.RouteSpec{Method: "GET", Pattern: string(ch) + "w.example/"})
		}
		for _, p := range []string{"{sub}.example.com/a", "{sub}.example.com/b", "{sub}.example.org/", "k{rest}.example/a", "k{rest}.example/b", "/a"} {
			c.Routes = append(c.Routes, rt.RouteSpec{Method: "GET", Pattern: p})
		}
		for _, h := range []string{"x.example.com", "x.example.com:8080", "x.example.org", "aw.example", "Aw.example", "kz.example", "kw.example", "k.example", "zz.example", "example.com"} {
			for _, q := range []string{"/", "/a", "/b"} {
				c.Reqs = append(c.Reqs, rt.Req{Method: "GET", Host: h, Path: q})
			}
		}
	}
	nreq := gen.IntR(t, 1, 6, "nreq")
	for i := 0; i < nreq; i++ {
		src := gen.Pick(t, c.Routes, "src")
		hsrc := src
		if gen.IntR(t, 0, 2, "mixhost") == 0 {
			hsrc = gen.Pick(t, c.Routes, "hsrc")
		}
		if !ref.ValidPattern(src.Pattern, 1<<16, 1<<16) || !ref.ValidPattern(hsrc.Pattern, 1<<16, 1<<16) {
			continue
		}
		_, path := gen.Instantiate(t, src.Pattern)
		host, _ := gen.Instantiate(t, hsrc.Pattern)
		if rapid.Bool().Draw(t, "mutpath") {
			path = gen.MutatePath(t, path)
		}
		if gen.IntR(t, 0, 3, "muthost") != 0 {
			host = gen.MutateHost(t, host)
		}
		if gen.IntR(t, 0, 15, "dots") == 0 && host != "" && !strings.Contains(host, ":") {
			host += ".."
		}
		if strings.Contains(path, "//") {
			continue
		}
		c.Reqs = append(c.Reqs, rt.Req{Method: src.Method, Host: host, Path: path})
	}
	for i := 0; i < 2; i++ {
		c.AnyHosts = append(c.AnyHosts, stats.B(rapid.OneOf(
			rapid.SampledFrom([]string{"example.com", "a.b:80", "[::1]", "::", "a:b:c", "host:port", "..", "{h0}", "*", "a/b"}),
			rapid.StringN(0, 12, 16),
		).Draw(t, "anyhost")))
	}
	return c
}

func TestRandom(t *testing.T) {
	rapid.Check(t, func(t *rapid.T) {
		c := genCase(t)
		defer stats.Guard("host", func() any { return c })()
		stats.EvalN(len(c.Reqs))
		stats.Sample(c)
		if err := checkCase(c, true); err != nil {
			stats.Fail("host", c, "%v", err)
			t.Fatalf("%v", err)
		}
	})
}

// exhaustive: pairs of small hostname/path-only patterns x all short hosts over {a b .} x a few paths
func TestExhaustive(t *testing.T) {
	hostPats := []string{"a", "b", "ab", "a.b", "{h0}", "a.{h1}", "{h0}.b", "a{g0}", "a{g0}.b", "{h0}.{h1}", "a.b.a"}
	paths := []string{"/", "/a", "/{p0}", "/a/"}
	var pool []string
	for _, h := range hostPats {
		for _, p := range paths {
			pool = append(pool, h+p)
		}
	}
	pool = append(pool, paths...)
	var hosts []string
	var rec func(h string)
	maxLen := stats.EnvInt("C09_HOSTLEN", 5)
	rec = func(h string) {
		hosts = append(hosts, h)
		if len(h) == maxLen {
			return
		}
		for _, c := range []string{"a", "b", "."} {
			rec(h + c)
		}
	}
	rec("")
	var reqs []rt.Req
	for _, h := range hosts {
		for _, p := range []string{"/", "/a", "/b", "/a/"} {
			reqs = append(reqs, rt.Req{Method: "GET", Host: h, Path: p})
			if h != "" && len(h) <= 3 {
				reqs = append(reqs, rt.Req{Method: "GET", Host: h + ":80", Path: p}, rt.Req{Method: "GET", Host: h + ".", Path: p})
			}
		}
	}
	stats.Note("exhaustive", fmt.Sprintf("all pairs of %d small patterns x %d requests (every Host over {a b .} up to length %d, with port / trailing dot variants, x 4 paths)", len(pool), len(reqs), maxLen))
	shard, shards := stats.EnvInt("VERIF_SHARD", 0), stats.EnvInt("VERIF_SHARDS", 1)
	n := 0
	for i := 0; i < len(pool); i++ {
		for j := i; j < len(pool); j++ {
			n++
			if n%shards != shard {
				continue
			}
			routes := []rt.RouteSpec{{Method: "GET", Pattern: pool[i]}}
			if j > i {
				routes = append(routes, rt.RouteSpec{Method: "GET", Pattern: pool[j]})
			}
			c := &Case{Routes: routes, Reqs: reqs}
			stats.EvalN(len(reqs))
			if n%300 == 1 {
				stats.Sample(&Case{Routes: routes, Reqs: reqs[:4]})
			}
			if err := checkCase(c, true); err != nil {
				for _, q := range reqs {
					one := &Case{Routes: routes, Reqs: []rt.Req{q}}
					if e := checkCase(one, false); e != nil {
						stats.Fail("host", one, "%v", e)
						t.Fatalf("%v", e)
					}
				}
				stats.Fail("host", c, "%v", err)
				t.Fatalf("%v", err)
			}
		}
	}
}
