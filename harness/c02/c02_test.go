// C02 — registered routes behave as an exact map keyed by (method, pattern).
package c02

import (
	"fmt"
	"os"
	"strings"
	"testing"

	"pgregory.net/rapid"

	"verif/gen"
	"verif/hist"
	"verif/stats"
)

func TestMain(m *testing.M) {
	stats.Init("C02")
	stats.RegisterReplay("history", hist.Replay)
	os.Exit(stats.Finish(m.Run()))
}

func TestReplay(t *testing.T) { stats.RunReplays(t) }

func canon(h *hist.History) string {
	var sb strings.Builder
	for _, op := range h.Ops {
		sb.WriteString(op.String())
		sb.WriteByte(';')
	}
	return sb.String()
}

func after(e *hist.Engine, h *hist.History) {
	for k, v := range e.Stat {
		stats.ClassN(k, v)
	}
	nontrivial := e.Stat["nontrivial:insert-after-removal-sharing-prefix"] > 0 || e.Stat["insert:conflict"] > 0 ||
		e.Stat["txn:aborted"] > 0 || e.Stat["txn:updates-error"] > 0 || e.Stat["txn:updates-panic"] > 0
	if nontrivial {
		stats.NonTrivial(canon(h))
	}
	stats.Sample(h)
}

func TestModel(t *testing.T) {
	rapid.Check(t, func(t *rapid.T) {
		cfg := hist.Cfg{Observers: true, Methods: []string{"GET", "POST", "PATCH", "FOO"}}
		cfg.QuietTxn = gen.Chance(t, 1, 2, "quietTxn")
		g := hist.GenCfg{Txn: true, Managed: true, MaxBody: 4}
		if gen.Chance(t, 1, 6, "snapshots") {
			// every reader of the registered set counts, snapshots and iterators of an open transaction included
			cfg.Snapshots, g.Snapshots = true, true
		}
		hist.RunRapid(t, "history", cfg, g, after)
	})
}

// TestFanOut grows one node across the 50-child linear/binary search switch and shrinks it again.
func TestFanOut(t *testing.T) {
	alphabet := "abcdefghijklmnopqrstuvwxyzABCDEFGHIJKLMNOPQRSTUVWXYZ0123456789-_.~!$&'()+,;=:@"
	rapid.Check(t, func(t *rapid.T) {
		e, err := hist.New(hist.Cfg{Observers: true, Methods: []string{"GET", "FOO"}})
		if err != nil {
			t.Fatal(err)
		}
		defer e.Close()
		h := &hist.History{Cfg: e.Cfg}
		defer stats.Guard("history", func() any { return h })()
		k := gen.IntR(t, 45, 70, "fanout")
		perm := rapid.Permutation([]byte(alphabet)).Draw(t, "perm")[:k]
		base := gen.Pick(t, []string{"/", "/f/", "/f/a"}, "base")
		method := gen.Pick(t, []string{"GET", "FOO"}, "method")
		var ops []hist.Op
		for _, b := range perm {
			ops = append(ops, hist.Op{Kind: "handle", Method: method, Pattern: base + string(b) + gen.Pick(t, []string{"", "x", "/y"}, "tail")})
		}
		ops = append(ops, hist.Op{Kind: "handle", Method: method, Pattern: base + "{p}"}, hist.Op{Kind: "handle", Method: method, Pattern: base + "*{c}"})
		// updates and deletes in random order, some re-inserts
		for _, i := range rapid.SliceOfN(rapid.IntRange(0, len(ops)-1), 10, 60).Draw(t, "touch") {
			kind := gen.Pick(t, []string{"delete", "update", "handle"}, "kind")
			ops = append(ops, hist.Op{Kind: kind, Method: method, Pattern: ops[i].Pattern})
		}
		for i, op := range ops {
			h.Ops = append(h.Ops, op)
			// full observer sweeps are quadratic here: check the state every few steps and at the end
			if err := e.Apply(op); err != nil {
				stats.Fail("history", h, "%v", err)
				t.Fatalf("%v", err)
			}
			if i%7 == 0 || i == len(ops)-1 {
				if err := e.CheckState(); err != nil {
					stats.Fail("history", h, "after %v: %v", op, err)
					t.Fatalf("%v", err)
				}
			}
		}
		stats.EvalN(len(ops))
		stats.Class("fan-out>=45 history")
		stats.NonTrivial(canon(h))
	})
}

// TestExhaustiveHistories: every sequence (up to a bounded length) of handle/update/delete over a small pool of
// patterns that split and merge each other's nodes (static prefixes, parameter, catch-alls, hostnames).
func TestExhaustiveHistories(t *testing.T) {
	pool := []string{"/a", "/ab", "/a/b", "/a/{p}", "/a/*{c}", "/a/*{c}/x", "a.b/x", "{h}.b/x", "a.b/"}
	if extra := os.Getenv("C02_EXH_EXTRA"); extra != "" {
		pool = append(pool, strings.Split(extra, ",")...)
	}
	maxLen := stats.EnvInt("C02_EXH_LEN", 3)
	shard, shards := stats.EnvInt("VERIF_SHARD", 0), stats.EnvInt("VERIF_SHARDS", 1)
	var ops []hist.Op
	for _, p := range pool {
		for _, k := range []string{"handle", "delete", "update"} {
			ops = append(ops, hist.Op{Kind: k, Method: "GET", Pattern: p})
		}
	}
	ops = append(ops, hist.Op{Kind: "handle", Method: "FOO", Pattern: "/a"}, hist.Op{Kind: "delete", Method: "FOO", Pattern: "/a"}, hist.Op{Kind: "truncate", Methods: []string{"GET"}})
	stats.Note("exhaustive_histories", fmt.Sprintf("every sequence of length <= %d over %d operations (handle/update/delete on %d patterns, a custom-method pair, truncate)", maxLen, len(ops), len(pool)))
	n := 0
	var rec func(cur []hist.Op)
	rec = func(cur []hist.Op) {
		if stats.Failed() {
			return
		}
		if len(cur) > 0 {
			n++
			if n%shards == shard {
				e, err := hist.New(hist.Cfg{Observers: true, Methods: []string{"GET", "FOO"}})
				if err != nil {
					t.Fatal(err)
				}
				h := &hist.History{Cfg: e.Cfg, Ops: cur}
				for _, op := range cur {
					if err := e.Step(op); err != nil {
						h.Ops = append([]hist.Op(nil), cur...)
						stats.Fail("history", h, "%v", err)
						t.Errorf("%v", err)
						break
					}
				}
				e.Close()
				stats.EvalN(len(cur))
				stats.NonTrivial("exh|" + canon(h))
				if n%3000 == 1 {
					stats.Sample(&hist.History{Cfg: e.Cfg, Ops: append([]hist.Op(nil), cur...)})
				}
			}
		}
		if len(cur) == maxLen {
			return
		}
		for _, op := range ops {
			rec(append(cur[:len(cur):len(cur)], op))
		}
	}
	rec(nil)
}

func TestNote(t *testing.T) {
	stats.Note("model", fmt.Sprintf("sequential map keyed by (method, pattern) with the documented conflict rule; observers compared after every step: Len, Has, Route, Iter.All/Methods/Prefix/Routes on the router and on the open transaction"))
}
