// C02 — registered routes behave as an exact map keyed by (method, pattern).
package c02

import (
	"fmt"
	"os"
	"strings"
	"testing"

	"pgregory.net/rapid"

	"verif/gen"
	"verif/hist"
	"verif/stats"
)

func TestMain(m *testing.M) {
	stats.Init("C02")
	stats.RegisterReplay("history", hist.Replay)
	os.Exit(stats.Finish(m.Run()))
}

func TestReplay(t *testing.T) { stats.RunReplays(t) }

func canon(h *hist.History) string {
	var sb strings.Builder
	for _, op := range h.Ops {
		sb.WriteString(op.String())
		sb.WriteByte(';')
	}
	return sb.String()
}

func after(e *hist.Engine, h *hist.History) {
	for k, v := range e.Stat {
		stats.ClassN(k, v)
	}
	nontrivial := e.Stat["nontrivial:insert-after-removal-sharing-prefix"] > 0 || e.Stat["insert:conflict"] > 0 ||
		e.Stat["txn:aborted"] > 0 || e.Stat["txn:updates-error"] > 0 || e.Stat["txn:updates-panic"] > 0
	if nontrivial {
		stats.NonTrivial(canon(h))
	}
	stats.Sample(h)
}

func TestModel(t *testing.T) {
	rapid.Check(t, func(t *rapid.T) {
		cfg := hist.Cfg{Observers: true, Methods: []string{"GET", "POST", "PATCH", "FOO"}}
		cfg.QuietTxn = gen.Chance(t, 1, 2, "quietTxn")
		g := hist.GenCfg{Txn: true, Managed: true, MaxBody: 4}
		hist.RunRapid(t, "history", cfg, g, after)
	})
}

// TestFanOut grows one node across the 50-child linear/binary search switch and shrinks it again.
func TestFanOut(t *testing.T) {
	alphabet := "abcdefghijklmnopqrstuvwxyzABCDEFGHIJKLMNOPQRSTUVWXYZ0123456789-_.~!$&'()+,;=:@"
	rapid.Check(t, func(t *rapid.T) {
		e, err := hist.New(hist.Cfg{Observers: true, Methods: []string{"GET", "FOO"}})
		if err != nil {
			t.Fatal(err)
		}
		defer e.Close()
		h := &hist.History{Cfg: e.Cfg}
		defer stats.Guard("history", func() any { return h })()
		k := gen.IntR(t, 45, 70, "fanout")
		perm := rapid.Permutation([]byte(alphabet)).Draw(t, "perm")[:k]
		base := gen.Pick(t, []string{"/", "/f/", "/f/a"}, "base")
		method := gen.Pick(t, []string{"GET", "FOO"}, "method")
		var ops []hist.Op
		for _, b := range perm {
			ops = append(ops, hist.Op{Kind: "handle", Method: method, Pattern: base + string(b) + gen.Pick(t, []string{"", "x", "/y"}, "tail")})
		}
		ops = append(ops, hist.Op{Kind: "handle", Method: method, Pattern: base + "{p}"}, hist.Op{Kind: "handle", Method: method, Pattern: base + "*{c}"})
		// updates and deletes in random order, some re-inserts
		for _, i := range rapid.SliceOfN(rapid.IntRange(0, len(ops)-1), 10, 60).Draw(t, "touch") {
			kind := gen.Pick(t, []string{"delete", "update", "handle"}, "kind")
			ops = append(ops, hist.Op{Kind: kind, Method: method, Pattern: ops[i].Pattern})
		}
		for i, op := range ops {
			h.Ops = append(h.Ops, op)
			// full observer sweeps are quadratic here: check the state every few steps and at the end
			if err := e.Apply(op); err != nil {
				stats.Fail("history", h, "%v", err)
				t.Fatalf("%v", err)
			}
			if i%7 == 0 || i == len(ops)-1 {
				if err := e.CheckState(); err != nil {
					stats.Fail("history", h, "after %v: %v", op, err)
					t.Fatalf("%v", err)
				}
			}
		}
		stats.EvalN(len(ops))
		stats.Class("fan-out>=45 history")
		stats.NonTrivial(canon(h))
	})
}

func TestNote(t *testing.T) {
	stats.Note("model", fmt.Sprintf("sequential map keyed by (method, pattern) with the documented conflict rule; observers compared after every step: Len, Has, Route, Iter.All/Methods/Prefix/Routes on the router and on the open transaction"))
}
