// C10 — patterns are accepted exactly per the grammar and every accepted one is routable.
package c10

import (
	"encoding/json"
	"errors"
	"fmt"
	"os"
	"reflect"
	"strings"
	"testing"

	"github.com/tigerwill90/fox"
	"pgregory.net/rapid"

	"verif/gen"
	"verif/ref"
	"verif/rt"
	"verif/stats"
)

func TestMain(m *testing.M) {
	stats.Init("C10")
	stats.RegisterReplay("grammar", func(raw json.RawMessage) error {
		var c GramCase
		if err := json.Unmarshal(raw, &c); err != nil {
			return err
		}
		return checkGrammar(&c)
	})
	stats.RegisterReplay("limit", func(raw json.RawMessage) error {
		var c LimitCase
		if err := json.Unmarshal(raw, &c); err != nil {
			return err
		}
		return checkGrammar(c.gram())
	})
	stats.RegisterReplay("roundtrip", func(raw json.RawMessage) error {
		var c RoundTrip
		if err := json.Unmarshal(raw, &c); err != nil {
			return err
		}
		return checkRoundTrip(&c)
	})
	os.Exit(stats.Finish(m.Run()))
}

func TestReplay(t *testing.T) { stats.RunReplays(t) }

// GramCase: one candidate pattern under given limits (-1 = router default).
type GramCase struct {
	Pattern   stats.B `json:"pattern"`
	MaxParams int     `json:"max_params"`
	MaxKey    int     `json:"max_key"`
}

func nop(fox.Context) {}

var routers = map[[2]int]*fox.Router{}

func routerFor(mp, mk int) *fox.Router {
	k := [2]int{mp, mk}
	if r := routers[k]; r != nil {
		return r
	}
	// Every second configuration gives each limit twice, a lower value first (a shared base option list with the application's
	// own value appended): options apply in order, the configured limit is the last one given.
	twice := (mp+3*mk)%2 == 0
	var opts []fox.GlobalOption
	if mp >= 0 {
		if twice {
			opts = append(opts, fox.WithMaxRouteParams(uint16(mp/2)))
		}
		opts = append(opts, fox.WithMaxRouteParams(uint16(mp)))
	}
	if mk >= 0 {
		if twice {
			opts = append(opts, fox.WithMaxRouteParamKeyBytes(uint16(mk/2)))
		}
		opts = append(opts, fox.WithMaxRouteParamKeyBytes(uint16(mk)))
	}
	r, err := fox.New(opts...)
	if err != nil {
		panic(err)
	}
	routers[k] = r
	return r
}

func lim(v int) int {
	if v < 0 {
		return 65535
	}
	return v
}

// outOfDomain: the documentation says "LDH" while the parser (like Go's isDomainName) accepts '_' in
// host labels; the property does not settle that, so such strings are not judged.
func outOfDomain(p string) bool {
	i := strings.IndexByte(p, '/')
	return i > 0 && strings.Contains(p[:i], "_")
}

// checkGrammar: NewRoute, Handle and Delete accept/reject exactly like the reference grammar, never panic.
func checkGrammar(c *GramCase) (err error) {
	p := string(c.Pattern)
	defer func() {
		if r := recover(); r != nil {
			err = fmt.Errorf("pattern %q (limits params=%d key=%d): panic: %v", p, c.MaxParams, c.MaxKey, r)
		}
	}()
	f := routerFor(c.MaxParams, c.MaxKey)
	rte, e1 := f.NewRoute(p, nop)
	if outOfDomain(p) {
		return nil
	}
	want := ref.ValidPattern(p, lim(c.MaxParams), lim(c.MaxKey))
	if (e1 == nil) != want {
		return fmt.Errorf("pattern %q (limits params=%d key=%d): grammar says valid=%v, NewRoute returned err=%v", p, c.MaxParams, c.MaxKey, want, e1)
	}
	if e1 != nil && !errors.Is(e1, fox.ErrInvalidRoute) {
		return fmt.Errorf("pattern %q: NewRoute error %v does not match ErrInvalidRoute", p, e1)
	}
	if e1 == nil {
		if rte.Pattern() != p || rte.Hostname()+rte.Path() != p || rte.ParamsLen() != len(ref.Wildcards(p)) {
			return fmt.Errorf("pattern %q: route accessors pattern=%q host=%q path=%q paramsLen=%d", p, rte.Pattern(), rte.Hostname(), rte.Path(), rte.ParamsLen())
		}
	}
	_, e2 := f.Handle("GET", p, nop)
	if (e2 == nil) != want {
		return fmt.Errorf("pattern %q (limits params=%d key=%d): grammar says valid=%v, Handle on an empty router returned err=%v", p, c.MaxParams, c.MaxKey, want, e2)
	}
	if e2 != nil && !errors.Is(e2, fox.ErrInvalidRoute) {
		return fmt.Errorf("pattern %q: Handle error %v does not match ErrInvalidRoute", p, e2)
	}
	_, e3 := f.Delete("GET", p)
	if want && e3 != nil {
		return fmt.Errorf("pattern %q: Delete of the route just registered failed: %v", p, e3)
	}
	if !want && !errors.Is(e3, fox.ErrInvalidRoute) {
		return fmt.Errorf("pattern %q: Delete validated differently from Handle: err=%v", p, e3)
	}
	if want {
		if _, e4 := f.Delete("GET", p); !errors.Is(e4, fox.ErrRouteNotFound) {
			return fmt.Errorf("pattern %q: Delete of a valid but unregistered pattern returned %v", p, e4)
		}
		// the other registration entry point: the route value this router built for the pattern
		if e5 := f.HandleRoute("GET", rte); e5 != nil {
			return fmt.Errorf("pattern %q (limits params=%d key=%d): grammar says valid, NewRoute accepted it, HandleRoute on the same empty router returned err=%v", p, c.MaxParams, c.MaxKey, e5)
		}
		if e6 := f.UpdateRoute("GET", rte); e6 != nil {
			return fmt.Errorf("pattern %q (limits params=%d key=%d): UpdateRoute with the route just registered returned err=%v", p, c.MaxParams, c.MaxKey, e6)
		}
		if _, e7 := f.Delete("GET", p); e7 != nil {
			return fmt.Errorf("pattern %q: Delete of the route registered through HandleRoute failed: %v", p, e7)
		}
		// registered twice in one transaction under a verb the router has not seen yet (a set-up routine that tolerates "already
		// there"): the second call is refused as a duplicate, the pattern stays registered
		txn := f.Txn(true)
		_, e8 := txn.Handle("BREW", p, nop)
		_, e9 := txn.Handle("BREW", p, nop)
		txn.Commit()
		if e8 != nil || !errors.Is(e9, fox.ErrRouteExist) || !f.Has("BREW", p) {
			return fmt.Errorf("pattern %q: registered twice in one transaction under a new verb: first err=%v, second err=%v (want ErrRouteExist), registered afterwards=%v", p, e8, e9, f.Has("BREW", p))
		}
		if _, e10 := f.Delete("BREW", p); e10 != nil {
			return fmt.Errorf("pattern %q: Delete under the new verb failed: %v", p, e10)
		}
	}
	return nil
}

func interesting(p string) bool {
	return strings.ContainsAny(p, "{*") || (len(p) > 0 && p[0] != '/')
}

func judge(c *GramCase) bool {
	stats.Eval()
	p := string(c.Pattern)
	if interesting(p) {
		stats.NonTrivial(fmt.Sprintf("%d|%d|%s", c.MaxParams, c.MaxKey, p))
	}
	if outOfDomain(p) {
		stats.Excluded("'_' in a host label (documentation says LDH, parser accepts it): not judged")
	}
	if err := checkGrammar(c); err != nil {
		stats.Fail("grammar", c, "%v", err)
		return false
	}
	return true
}

func enumerate(t *testing.T, alpha string, maxLen int, suffix string) {
	shard, shards := stats.EnvInt("VERIF_SHARD", 0), stats.EnvInt("VERIF_SHARDS", 1)
	cnt := 0
	buf := make([]byte, 0, maxLen+1)
	// shortest strings first, so that the first failure is a minimal one
	for want := 0; want <= maxLen && !stats.Failed(); want++ {
		n := 0
		var rec func(depth int)
		rec = func(depth int) {
			if stats.Failed() {
				return
			}
			if depth == 2 {
				n++
				if n%shards != shard {
					return
				}
			}
			if depth == want {
				if depth >= 2 || shard == 0 {
					c := &GramCase{Pattern: stats.B(string(buf) + suffix), MaxParams: -1, MaxKey: -1}
					if cnt++; cnt%60000 == 11 {
						stats.Sample(c)
					}
					if !judge(c) {
						t.Errorf("violation on %q", c.Pattern)
						return
					}
					if ref.ValidPattern(string(c.Pattern), 65535, 65535) {
						stats.Class("enumerated:valid")
					}
				}
				return
			}
			for i := 0; i < len(alpha); i++ {
				buf = append(buf, alpha[i])
				rec(depth + 1)
				buf = buf[:len(buf)-1]
			}
		}
		rec(0)
	}
}

func TestGrammarExhaustive(t *testing.T) {
	l1 := stats.EnvInt("C10_LEN", 6)
	l2 := stats.EnvInt("C10_HOSTLEN", 7)
	stats.Note("exhaustive_mixed", fmt.Sprintf("all strings over {/ { } * a . - 1} up to length %d", l1))
	stats.Note("exhaustive_host", fmt.Sprintf("all strings over {{ } a . - 1} up to length %d followed by '/'", l2))
	enumerate(t, "/{}*a.-1", l1, "")
	enumerate(t, "{}a.-1", l2, "/")
}

// LimitCase: a pattern built to sit at a limit - N wildcards, or one wildcard whose name has N bytes - under given limits
// (-1 = router default, which is also the largest value the options accept).
type LimitCase struct {
	Shape     string `json:"shape"`
	N         int    `json:"n"`
	MaxParams int    `json:"max_params"`
	MaxKey    int    `json:"max_key"`
}

var limitShapes = []string{"params", "prefixed-params", "params-then-catchall", "host-and-path-params", "param-name", "catchall-name"}

func (c *LimitCase) gram() *GramCase {
	var p string
	switch c.Shape {
	case "params":
		p = strings.Repeat("/{p}", c.N)
	case "prefixed-params":
		p = strings.Repeat("/a{p}", c.N)
	case "params-then-catchall":
		p = strings.Repeat("/{p}", c.N-1) + "/*{c}"
	case "host-and-path-params":
		p = "{h}.b" + strings.Repeat("/{p}", c.N-1)
	case "param-name":
		p = "/{" + strings.Repeat("n", c.N) + "}"
	case "catchall-name":
		p = "/x*{" + strings.Repeat("n", c.N) + "}/y"
	}
	return &GramCase{Pattern: stats.B(p), MaxParams: c.MaxParams, MaxKey: c.MaxKey}
}

// TestLimitBoundaries: the configured limits at their exact boundaries, including the defaults (the largest configurable values),
// where the count that must be refused no longer fits the option's own type.
func TestLimitBoundaries(t *testing.T) {
	limits := []int{-1, 0, 1, 2, 255, 256, 257, 1000, 32767, 32768, 65534, 65535}
	cases := 0
	for _, shape := range limitShapes {
		for _, l := range limits {
			eff := lim(l)
			seen := map[int]bool{}
			for _, n := range []int{eff - 1, eff, eff + 1, eff + 2, 2*eff + 1, 65535, 65536, 65537, 65536 + eff, 131071, 131072, 131073} {
				if n < 1 || n > 140000 || seen[n] || (n > eff+2 && n < 65535 && l >= 0 && l < 1000) {
					continue
				}
				seen[n] = true
				c := &LimitCase{Shape: shape, N: n, MaxParams: -1, MaxKey: -1}
				if strings.HasSuffix(shape, "-name") {
					c.MaxKey = l
				} else {
					c.MaxParams = l
				}
				stats.Eval()
				stats.NonTrivial(fmt.Sprintf("limit|%+v", *c))
				switch {
				case n == eff+1:
					stats.Class("limit:first-count-beyond-the-limit")
				case n == eff:
					stats.Class("limit:exactly-at-the-limit")
				case n > 65535:
					stats.Class("limit:count-beyond-16-bits")
				}
				if cases++; cases%17 == 3 {
					stats.Sample(c)
				}
				if err := checkGrammar(c.gram()); err != nil {
					msg := err.Error()
					if len(msg) > 600 {
						msg = msg[:200] + " ... " + msg[len(msg)-380:]
					}
					stats.Fail("limit", c, "%+v: %s", *c, msg)
					t.Fatalf("%+v: %s", *c, msg)
				}
			}
		}
	}
	stats.Note("limit_boundaries", fmt.Sprintf("%d patterns: %d shapes x limits %v (-1 = default) x counts around each limit and around 65536 and 131072", cases, len(limitShapes), limits))
}

// TestAdjacencyFamily: every pattern "prefix W1 sep W2 suffix" for wildcards with and without leading text and separators made of
// slashes, text and parameters - the neighbourhood of the rules "one wildcard per segment, at its end" and "no two catch-alls
// separated only by a slash".
func TestAdjacencyFamily(t *testing.T) {
	wild := []string{"*{a}", "x*{a}", "{a}", "x{a}", "*{a}x", "{a}x"}
	seps := []string{"", "/", "//", "///", "a", "/a", "a/", "/a/", "//a", "a//", "/{p}/", "/{p}", "{p}/", "/*", "*/", "/./", "."}
	n := 0
	for _, prefix := range []string{"/", "/p/", "a.b/", "/p//"} {
		for _, w1 := range wild {
			for _, sep := range seps {
				for _, w2 := range wild {
					for _, suffix := range []string{"", "/", "/x", "//"} {
						c := &GramCase{Pattern: stats.B(prefix + w1 + sep + strings.Replace(w2, "{a}", "{b}", 1) + suffix), MaxParams: -1, MaxKey: -1}
						if n++; n%997 == 5 {
							stats.Sample(c)
						}
						if ref.ValidPattern(string(c.Pattern), 65535, 65535) {
							stats.Class("adjacency-family:valid")
						} else {
							stats.Class("adjacency-family:invalid")
						}
						if !judge(c) {
							t.Fatalf("violation on %q", c.Pattern)
						}
					}
				}
			}
		}
	}
	stats.Note("adjacency_family", fmt.Sprintf("%d patterns: 4 prefixes x 6 wildcard forms x 17 separators x 6 wildcard forms x 4 suffixes", n))
}

var gramTokens = []string{"/", "/", "a", "ab", "{", "}", "*", "{p}", "{ab}", "{abc}", "{abcd}", "*{c}", "*{cd}", "*{cde}", ".", "-", "1", "{}", "*{}", "**", "x{p}", "x*{c}", "{p}x", "{a.b}", "{a/b}", "com", "é", "%2F", "}{", "*}"}

func soup(t *rapid.T, toks []string, lo, hi int) string {
	n := gen.IntR(t, lo, hi, "ntok")
	var sb strings.Builder
	for i := 0; i < n; i++ {
		sb.WriteString(gen.Pick(t, toks, "tok"))
	}
	return sb.String()
}

func genLimits(t *rapid.T) (int, int) {
	return gen.Pick(t, []int{-1, -1, 0, 1, 2, 3}, "maxParams"), gen.Pick(t, []int{-1, -1, 0, 1, 2, 3}, "maxKey")
}

func TestGrammarRandom(t *testing.T) {
	rapid.Check(t, func(t *rapid.T) {
		c := &GramCase{}
		c.MaxParams, c.MaxKey = genLimits(t)
		var p string
		switch gen.IntR(t, 0, 3, "shape") {
		case 0: // token soup
			p = soup(t, gramTokens, 1, 10)
		case 1: // a valid generated pattern, possibly damaged by one edit
			p = gen.Pattern(t, nil, 1, false)
			if rapid.Bool().Draw(t, "damage") && len(p) > 0 {
				i := gen.IntR(t, 0, len(p)-1, "pos")
				p = p[:i] + gen.Pick(t, []string{"", "{", "}", "*", "/", ".", "-"}, "ins") + p[i+gen.IntR(t, 0, 1, "del"):]
			}
		case 2: // long hosts: labels around 63 bytes, totals around 255, names around the key limit
			nl := gen.IntR(t, 1, 6, "nlabels")
			var labs []string
			for i := 0; i < nl; i++ {
				lb := []byte(strings.Repeat("a", gen.Pick(t, []int{1, 30, 50, 62, 63, 64, 65, 70}, "ll")))
				// every byte of a label counts towards the limits, whatever its class: letters, digits, hyphens
				for k := gen.Pick(t, []int{0, 0, 1, 2, 8}, "nonletters"); k > 0 && len(lb) > 2; k-- {
					lb[gen.IntR(t, 1, len(lb)-2, "at")] = gen.Pick(t, []byte("--0-9A_"), "byte")
				}
				l := string(lb)
				if gen.IntR(t, 0, 3, "lp") == 0 {
					l += "{" + strings.Repeat("n", gen.IntR(t, 1, 4, "nl")) + "}"
				}
				labs = append(labs, l)
			}
			p = strings.Join(labs, ".") + gen.Path(t, 2)
		default: // many parameters / long names around the limits
			np := gen.IntR(t, 0, 5, "np")
			var sb strings.Builder
			for i := 0; i < np; i++ {
				sb.WriteString("/")
				if rapid.Bool().Draw(t, "catch") && i%2 == 0 {
					sb.WriteString("x*")
				}
				sb.WriteString("{" + strings.Repeat("k", gen.IntR(t, 1, 4, "kl")) + fmt.Sprint(i) + "}")
			}
			p = sb.String() + "/"
		}
		c.Pattern = stats.B(p)
		stats.Sample(c)
		if c.MaxParams >= 0 || c.MaxKey >= 0 {
			stats.Class("with-explicit-limits")
		}
		if !judge(c) {
			t.Fatalf("violation on %q", p)
		}
	})
}

// arbitrary bytes: crash freedom and agreement beyond the structured generators
func TestGrammarBytes(t *testing.T) {
	rapid.Check(t, func(t *rapid.T) {
		c := &GramCase{Pattern: stats.B(rapid.SliceOfN(rapid.Byte(), 0, 40).Draw(t, "bytes")), MaxParams: -1, MaxKey: -1}
		if rapid.Bool().Draw(t, "rooted") {
			c.Pattern = "/" + c.Pattern
		}
		if !judge(c) {
			t.Fatalf("violation on %q", c.Pattern)
		}
	})
}

// ---- round trip: every accepted pattern routes its own instantiations ----

type RoundTrip struct {
	Pattern string   `json:"pattern"`
	Values  []string `json:"values"` // one per wildcard, in order
	Port    string   `json:"port,omitempty"`
}

func (c *RoundTrip) request() (host, path string) {
	var sb strings.Builder
	last := 0
	for i, w := range ref.Wildcards(c.Pattern) {
		sb.WriteString(c.Pattern[last:w.Start])
		sb.WriteString(c.Values[i])
		last = w.End
	}
	sb.WriteString(c.Pattern[last:])
	s := sb.String()
	he := strings.IndexByte(c.Pattern, '/')
	if he == 0 {
		return "", s
	}
	// the host part of the instantiated string ends where the pattern's host ended: host values contain no '/'
	he = strings.IndexByte(s, '/')
	return s[:he], s[he:]
}

func checkRoundTrip(c *RoundTrip) (err error) {
	defer func() {
		if r := recover(); r != nil {
			err = fmt.Errorf("pattern %q values %q: panic: %v", c.Pattern, c.Values, r)
		}
	}()
	ws := ref.Wildcards(c.Pattern)
	if len(ws) != len(c.Values) {
		return nil
	}
	r, e := rt.New(rt.Global{}, []rt.RouteSpec{{Method: "GET", Pattern: c.Pattern}})
	if e != nil || len(r.Routes) != 1 {
		return fmt.Errorf("pattern %q: accepted by the grammar but registration failed", c.Pattern)
	}
	host, path := c.request()
	q := rt.Req{Method: "GET", Host: host + c.Port, Path: path}
	got := rt.DoLookup(r.F, q)
	desc := fmt.Sprintf("single route %q, substituting %q gives host=%q path=%q: ", c.Pattern, c.Values, q.Host, path)
	if got.Pattern != c.Pattern || got.Tsr {
		return fmt.Errorf("%sLookup returned %v", desc, got)
	}
	if msg := ref.CheckParams(c.Pattern, got.Params, host, path); msg != "" {
		return fmt.Errorf("%sLookup params %v: %s", desc, got.Params, msg)
	}
	if ref.UniqueSplit(c.Pattern) {
		var want []ref.Param
		for i, w := range ws {
			want = append(want, ref.Param{Key: w.Name, Value: c.Values[i]})
		}
		if len(want) > 0 && !reflect.DeepEqual(want, got.Params) {
			return fmt.Errorf("%sLookup params %v differ from the substituted values", desc, got.Params)
		}
	}
	if rv := rt.DoReverse(r.F, q); rv.Pattern != c.Pattern || rv.Tsr {
		return fmt.Errorf("%sReverse returned %v", desc, rv)
	}
	if d := rt.IterReverseDiff(r.F, q.Host, path); d != "" {
		return fmt.Errorf("%s%s", desc, d)
	}
	sv := r.ServeReq(q)
	if len(sv.Hits) != 1 || sv.Hits[0].Kind != "route" || sv.Hits[0].Pattern != c.Pattern || !reflect.DeepEqual(sv.Hits[0].Params, got.Params) && len(got.Params) > 0 {
		return fmt.Errorf("%sServeHTTP hits %+v, Lookup params %v", desc, sv.Hits, got.Params)
	}
	if !r.F.Has("GET", c.Pattern) {
		return fmt.Errorf("%sHas(pattern) is false for the registered pattern", desc)
	}
	return nil
}

var pathValueAlphabet = []string{"a", "b", "Z", "0", "-", ".", ":", "%", "}", "~", "_", "é", "*", "{", "ab", "a.b", "%2F"}
var hostValueAlphabet = []string{"a", "b", "z", "0", "-", "_", "~", "ab", "xyz"}

func genValue(t *rapid.T, alpha []string) string {
	return soup(t, alpha, 1, 4)
}

func genRoundTrip(t *rapid.T, p string, long bool) *RoundTrip {
	c := &RoundTrip{Pattern: p}
	for _, w := range ref.Wildcards(p) {
		switch {
		case long && w.InHost:
			// the limits on hostnames are limits on patterns: what a wildcard label captures is not counted
			c.Values = append(c.Values, strings.Repeat("v", gen.Pick(t, []int{1, 19, 40, 63, 100}, "hostvaluelen")))
		case long && !w.CatchAll:
			c.Values = append(c.Values, strings.Repeat("w", gen.Pick(t, []int{1, 64, 130, 300}, "valuelen")))
		case w.InHost:
			c.Values = append(c.Values, genValue(t, hostValueAlphabet))
		case w.CatchAll:
			n := gen.IntR(t, 1, 3, "nsegs")
			var segs []string
			for i := 0; i < n; i++ {
				segs = append(segs, genValue(t, pathValueAlphabet))
			}
			c.Values = append(c.Values, strings.Join(segs, "/"))
		default:
			c.Values = append(c.Values, genValue(t, pathValueAlphabet))
		}
	}
	if p[0] != '/' {
		c.Port = gen.Pick(t, []string{"", "", ":80", ".", ".:8443"}, "port")
	}
	return c
}

func TestRoundTrip(t *testing.T) {
	rapid.Check(t, func(t *rapid.T) {
		var p string
		long := false
		switch gen.U(t, 5, "source") {
		case 0, 1:
			p = soup(t, gramTokens, 1, 8)
			if p == "" || (p[0] != '/' && rapid.Bool().Draw(t, "root")) {
				p = "/" + p
			}
		case 2, 3:
			p = gen.Pattern(t, nil, 1, false)
		default:
			// hostnames near the 255-byte limit with wildcard labels, long values
			long = true
			var labs []string
			for i, n := 0, gen.IntR(t, 2, 6, "nlabels"); i < n; i++ {
				if gen.Chance(t, 1, 3, "wildlabel") {
					labs = append(labs, fmt.Sprintf("{h%d}", i))
				} else {
					labs = append(labs, strings.Repeat("a", gen.Pick(t, []int{1, 30, 60, 63}, "lablen")))
				}
			}
			p = strings.Join(labs, ".") + gen.Path(t, 3)
			stats.Class("roundtrip:long-host-shape")
		}
		if !ref.ValidPattern(p, 65535, 65535) || outOfDomain(p) {
			t.Skip("not a valid pattern")
		}
		c := genRoundTrip(t, p, long)
		defer stats.Guard("roundtrip", func() any { return c })()
		stats.Eval()
		stats.Sample(c)
		if len(c.Values) > 0 {
			stats.NonTrivial("rt|" + p + "|" + strings.Join(c.Values, "|") + c.Port)
			if !ref.UniqueSplit(p) {
				stats.Class("roundtrip:catch-all-followed-by-text")
			}
			if p[0] != '/' {
				stats.Class("roundtrip:hostname-pattern")
			}
		}
		if err := checkRoundTrip(c); err != nil {
			stats.Fail("roundtrip", c, "%v", err)
			t.Fatalf("%v", err)
		}
	})
}

// exhaustive round trip: every valid enumerated short pattern x a fixed value set
func TestRoundTripExhaustive(t *testing.T) {
	l := stats.EnvInt("C10_RT_LEN", 7)
	alpha := "/{}*a."
	vals := [][]string{{"a", "b"}, {"a.b", "{x"}, {"*z", "a"}}
	buf := make([]byte, 0, l)
	cnt := 0
	var rec func(depth int)
	rec = func(depth int) {
		if stats.Failed() {
			return
		}
		p := string(buf)
		if ref.ValidPattern(p, 65535, 65535) && len(ref.Wildcards(p)) > 0 && len(ref.Wildcards(p)) <= 2 {
			for _, vs := range vals {
				c := &RoundTrip{Pattern: p}
				for i, w := range ref.Wildcards(p) {
					v := vs[i]
					if w.InHost {
						v = strings.NewReplacer(".", "", "{", "", "*", "").Replace(v)
					}
					if w.CatchAll {
						v = v + "/" + v
					}
					c.Values = append(c.Values, v)
				}
				stats.Eval()
				stats.NonTrivial("rt|" + p + "|" + strings.Join(c.Values, "|"))
				if cnt++; cnt%20000 == 5 {
					stats.Sample(c)
				}
				if err := checkRoundTrip(c); err != nil {
					stats.Fail("roundtrip", c, "%v", err)
					t.Errorf("%v", err)
					return
				}
			}
		}
		if depth == l {
			return
		}
		for i := 0; i < len(alpha); i++ {
			buf = append(buf, alpha[i])
			rec(depth + 1)
			buf = buf[:len(buf)-1]
		}
	}
	rec(0)
	stats.Note("exhaustive_roundtrip", fmt.Sprintf("every valid pattern with 1-2 wildcards over {/ { } * a .} up to length %d x 3 value tuples", l))
}

// TestRoundTripWildcardChains: patterns with two to five wildcards of either kind, separated by static text of one or two
// segments, optionally behind a prefix or a hostname and followed by a suffix, instantiated with values of minimal length
// (one byte each), of two bytes, and - for catch-alls - of several segments.
func TestRoundTripWildcardChains(t *testing.T) {
	n := 0
	for k := 2; k <= 5; k++ {
		for mask := 0; mask < 1<<k; mask++ { // bit i set: wildcard i is a catch-all
			for _, sep := range []string{"/x", "/x/y"} {
				for _, prefix := range []string{"", "/v", "a.b"} {
					for _, suffix := range []string{"", "/z", "/"} {
						var sb strings.Builder
						sb.WriteString(prefix)
						for i := 0; i < k; i++ {
							if i > 0 {
								sb.WriteString(sep)
							}
							if mask>>i&1 == 1 {
								fmt.Fprintf(&sb, "/*{c%d}", i)
							} else {
								fmt.Fprintf(&sb, "/{p%d}", i)
							}
						}
						sb.WriteString(suffix)
						p := sb.String()
						if !ref.ValidPattern(p, 65535, 65535) {
							continue
						}
						for _, shape := range []string{"one-byte", "two-bytes", "first-catch-all-long", "last-catch-all-long"} {
							c := &RoundTrip{Pattern: p}
							ws := ref.Wildcards(p)
							for i, w := range ws {
								v := string(rune('1' + i))
								switch {
								case shape == "two-bytes":
									v += v
								case shape == "first-catch-all-long" && w.CatchAll && mask&(1<<i-1) == 0:
									v = v + "/" + v + v
								case shape == "last-catch-all-long" && w.CatchAll && mask>>(i+1) == 0:
									v = v + v + "/" + v
								}
								c.Values = append(c.Values, v)
							}
							stats.Eval()
							stats.NonTrivial("rtchain|" + p + "|" + shape)
							stats.Class("wildcard-chain:" + shape)
							if n++; n%499 == 7 {
								stats.Sample(c)
							}
							if err := checkRoundTrip(c); err != nil {
								stats.Fail("roundtrip", c, "%v", err)
								t.Fatalf("%v", err)
							}
						}
					}
				}
			}
		}
	}
	stats.Note("wildcard_chains", fmt.Sprintf("%d round trips: 2-5 wildcards x every parameter/catch-all assignment x 2 separators x 3 prefixes x 3 suffixes x 4 value shapes", n))
}

func FuzzNewRoute(f *testing.F) {
	for _, s := range []string{"/", "/foo/{bar}", "/foo/*{bar}", "/foo/*{bar}/baz", "{sub}.example.com/a{b}/", "a.b.c/", "/a*", "/*/a}", "/{a}{b}", "a-.b/", "/a/*{b}/*{c}", strings.Repeat("a", 64) + ".com/"} {
		f.Add(s, uint8(255), uint8(255))
	}
	f.Fuzz(func(t *testing.T, p string, mp, mk uint8) {
		c := &GramCase{Pattern: stats.B(p), MaxParams: -1, MaxKey: -1}
		if mp < 4 {
			c.MaxParams = int(mp)
		}
		if mk < 4 {
			c.MaxKey = int(mk)
		}
		if err := checkGrammar(c); err != nil {
			t.Fatalf("%v", err)
		}
		if c.MaxParams < 0 && c.MaxKey < 0 && ref.ValidPattern(p, 65535, 65535) && !outOfDomain(p) {
			rtc := &RoundTrip{Pattern: p}
			for _, w := range ref.Wildcards(p) {
				if w.CatchAll {
					rtc.Values = append(rtc.Values, "v1/v2")
				} else {
					rtc.Values = append(rtc.Values, "v")
				}
			}
			if err := checkRoundTrip(rtc); err != nil {
				t.Fatalf("%v", err)
			}
		}
	})
}
