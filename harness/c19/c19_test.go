// C19 — a route carries exactly the options it was created with.
package c19

import (
	"encoding/json"
	"errors"
	"fmt"
	"net"
	"net/http"
	"net/http/httptest"
	"os"
	"strings"
	"testing"

	"github.com/tigerwill90/fox"
	"pgregory.net/rapid"

	"verif/gen"
	"verif/ref"
	"verif/stats"
)

func TestMain(m *testing.M) {
	stats.Init("C19")
	stats.RegisterReplay("options", func(raw json.RawMessage) error {
		var c Case
		if err := json.Unmarshal(raw, &c); err != nil {
			return err
		}
		return checkCase(&c, false)
	})
	stats.RegisterReplay("invalid-option", func(raw json.RawMessage) error {
		var c InvalidCase
		if err := json.Unmarshal(raw, &c); err != nil {
			return err
		}
		return checkInvalid(&c)
	})
	stats.RegisterReplay("many-wildcards", func(raw json.RawMessage) error {
		var c ManyCase
		if err := json.Unmarshal(raw, &c); err != nil {
			return err
		}
		return checkMany(&c)
	})
	stats.RegisterReplay("annotation-keys", func(raw json.RawMessage) error {
		var c KeySeqCase
		if err := json.Unmarshal(raw, &c); err != nil {
			return err
		}
		return checkKeySeq(&c)
	})
	os.Exit(stats.Finish(m.Run()))
}

func TestReplay(t *testing.T) { stats.RunReplays(t) }

// Opt is one option in a sequence.
type Opt struct {
	Kind string `json:"kind"` // ignore, redirect, resolver, mw, annot
	On   bool   `json:"on,omitempty"`
	ID   int    `json:"id,omitempty"`  // resolver id (0 = nil resolver), middleware id, annotation value
	Key  int    `json:"key,omitempty"` // annotation key index
}

type Case struct {
	Global  []Opt  `json:"global"`
	Route   []Opt  `json:"route"`
	Pattern string `json:"pattern"`
	Update  []Opt  `json:"update,omitempty"` // when non-nil the route is then updated with these options
	DoUpd   bool   `json:"do_update,omitempty"`
	// Shared: equal trailing-slash and resolver options are one and the same fox.Option value wherever they occur - in the
	// router's option list, the route's and the update's (options are values: applying one leaves it as it was).
	Shared bool `json:"shared,omitempty"`
	// Delegate: before they look at anything, the no-route, no-method, options and redirect handlers run another registered
	// route (one with a resolver of its own) on their context through Route.Handle / Route.HandleMiddleware, as an aliasing
	// handler would; they are still "other handlers" afterwards and ClientIP still answers with the router-wide resolver
	Delegate bool `json:"delegate,omitempty"`
}

// shared option values of the case being checked (nil = build a fresh value every time)
var sharedOpts map[string]fox.Option

func sharedOpt(key string, mk func() fox.Option) fox.Option {
	if sharedOpts == nil {
		return mk()
	}
	if o, ok := sharedOpts[key]; ok {
		return o
	}
	o := mk()
	sharedOpts[key] = o
	return o
}

type resolver struct{ id int }

func (r *resolver) ClientIP(fox.Context) (*net.IPAddr, error) {
	return &net.IPAddr{IP: net.IPv4(10, 0, byte(r.id>>8), byte(r.id))}, nil
}

// resolvers whose value is the zero value of its type (a field-less struct such as clientip.RemoteAddr{}, a zero number): as
// good a resolver as any other
type zeroStructResolver struct{}

func (zeroStructResolver) ClientIP(fox.Context) (*net.IPAddr, error) {
	return &net.IPAddr{IP: net.IPv4(10, 0, 0, 5)}, nil
}

type zeroIntResolver int

func (zeroIntResolver) ClientIP(fox.Context) (*net.IPAddr, error) {
	return &net.IPAddr{IP: net.IPv4(10, 0, 0, 6)}, nil
}

var resolvers = map[int]fox.ClientIPResolver{5: zeroStructResolver{}, 6: zeroIntResolver(0)}

func res(id int) fox.ClientIPResolver {
	if id == 0 {
		return nil
	}
	if resolvers[id] == nil {
		resolvers[id] = &resolver{id}
	}
	return resolvers[id]
}

type akey struct{ n int }
type ikey struct{ v any } // comparable static type, comparable dynamic value here

var annotKeys = []any{akey{1}, akey{2}, "string-key", 7, ikey{"x"}, [2]int{1, 2}, new(int)}

type state struct {
	ignore, redirect  bool
	resolver          int // 0 none
	mws               []int
	annots            map[int]int
	ambiguousResolver bool
}

// fold applies an option sequence to a state exactly as the property states it.
func fold(s state, opts []Opt, route bool) state {
	if s.annots != nil {
		m := map[int]int{}
		for k, v := range s.annots {
			m[k] = v
		}
		s.annots = m
	}
	s.mws = append([]int(nil), s.mws...)
	for _, o := range opts {
		switch o.Kind {
		case "ignore":
			s.ignore = o.On
			if o.On {
				s.redirect = false
			}
		case "redirect":
			s.redirect = o.On
			if o.On {
				s.ignore = false
			}
		case "resolver":
			if route {
				s.resolver = o.ID // nil per-route resolver means none
				s.ambiguousResolver = false
			} else if o.ID != 0 {
				s.resolver = o.ID
			} else if s.resolver != 0 {
				// a nil router-wide resolver after a real one: the documentation says "equivalent to no resolver
				// configured", the code keeps the previous one, the property only speaks of per-route nil
				s.ambiguousResolver = true
			}
		case "mw":
			s.mws = append(s.mws, o.ID)
		case "annot":
			if s.annots == nil {
				s.annots = map[int]int{}
			}
			s.annots[o.Key] = o.ID
		}
	}
	return s
}

type traceKey struct{}

func tracer(id int, trace *[]int) fox.MiddlewareFunc {
	return func(next fox.HandlerFunc) fox.HandlerFunc {
		return func(c fox.Context) {
			*trace = append(*trace, id)
			next(c)
		}
	}
}

func toGlobal(opts []Opt, trace *[]int) []fox.GlobalOption {
	var out []fox.GlobalOption
	for _, o := range opts {
		switch o.Kind {
		case "ignore":
			out = append(out, sharedOpt(fmt.Sprint("ignore", o.On), func() fox.Option { return fox.WithIgnoreTrailingSlash(o.On) }))
		case "redirect":
			out = append(out, sharedOpt(fmt.Sprint("redirect", o.On), func() fox.Option { return fox.WithRedirectTrailingSlash(o.On) }))
		case "resolver":
			out = append(out, sharedOpt(fmt.Sprint("resolver", o.ID), func() fox.Option { return fox.WithClientIPResolver(res(o.ID)) }))
		case "mw":
			out = append(out, fox.WithMiddleware(tracer(o.ID, trace)))
		}
	}
	return out
}

func toRoute(opts []Opt, trace *[]int) []fox.RouteOption {
	var out []fox.RouteOption
	for _, o := range opts {
		switch o.Kind {
		case "ignore":
			out = append(out, sharedOpt(fmt.Sprint("ignore", o.On), func() fox.Option { return fox.WithIgnoreTrailingSlash(o.On) }))
		case "redirect":
			out = append(out, sharedOpt(fmt.Sprint("redirect", o.On), func() fox.Option { return fox.WithRedirectTrailingSlash(o.On) }))
		case "resolver":
			out = append(out, sharedOpt(fmt.Sprint("resolver", o.ID), func() fox.Option { return fox.WithClientIPResolver(res(o.ID)) }))
		case "mw":
			out = append(out, fox.WithMiddleware(tracer(o.ID, trace)))
		case "annot":
			if o.ID == 0 {
				out = append(out, fox.WithAnnotation(annotKeys[o.Key], nil)) // an explicit nil is a value like any other: it replaces an earlier one
			} else {
				out = append(out, fox.WithAnnotation(annotKeys[o.Key], o.ID))
			}
		}
	}
	return out
}

func ipOf(id int) string {
	return net.IPv4(10, 0, byte(id>>8), byte(id)).String()
}

func clientIP(c fox.Context) string {
	ip, err := c.ClientIP()
	switch {
	case err == nil:
		return ip.String()
	case errors.Is(err, fox.ErrNoClientIPResolver):
		return "none"
	}
	return "err:" + err.Error()
}

func wantIP(id int) string {
	if id == 0 {
		return "none"
	}
	return ipOf(id)
}

func checkAccessors(desc string, rte *fox.Route, pattern string, want state) error {
	if rte.Pattern() != pattern || rte.Hostname()+rte.Path() != pattern {
		return fmt.Errorf("%sPattern()=%q Hostname()=%q Path()=%q", desc, rte.Pattern(), rte.Hostname(), rte.Path())
	}
	if i := strings.IndexByte(pattern, '/'); rte.Hostname() != pattern[:i] {
		return fmt.Errorf("%sHostname()=%q, want %q", desc, rte.Hostname(), pattern[:i])
	}
	if rte.ParamsLen() != len(ref.Wildcards(pattern)) {
		return fmt.Errorf("%sParamsLen()=%d, the pattern has %d wildcards", desc, rte.ParamsLen(), len(ref.Wildcards(pattern)))
	}
	if rte.IgnoreTrailingSlashEnabled() != want.ignore || rte.RedirectTrailingSlashEnabled() != want.redirect {
		return fmt.Errorf("%sIgnoreTrailingSlashEnabled()=%v RedirectTrailingSlashEnabled()=%v, the option sequence gives ignore=%v redirect=%v", desc, rte.IgnoreTrailingSlashEnabled(), rte.RedirectTrailingSlashEnabled(), want.ignore, want.redirect)
	}
	if !want.ambiguousResolver {
		got := rte.ClientIPResolver()
		if want.resolver == 0 && got != nil {
			return fmt.Errorf("%sClientIPResolver() = %v, want none", desc, got)
		}
		if want.resolver != 0 && got != resolvers[want.resolver] {
			return fmt.Errorf("%sClientIPResolver() = %v, want resolver #%d", desc, got, want.resolver)
		}
	}
	for k := range annotKeys {
		var wantV any
		if v, ok := want.annots[k]; ok && v != 0 {
			wantV = v
		}
		if got := rte.Annotation(annotKeys[k]); got != wantV {
			return fmt.Errorf("%sAnnotation(key #%d) = %v, want %v (last value set)", desc, k, got, wantV)
		}
	}
	return nil
}

func eqInts(a, b []int) bool {
	if len(a) != len(b) {
		return false
	}
	for i := range a {
		if a[i] != b[i] {
			return false
		}
	}
	return true
}

func checkCase(c *Case, count bool) (err error) {
	defer func() {
		if r := recover(); r != nil {
			err = fmt.Errorf("case %+v: panic: %v", *c, r)
		}
	}()
	var trace []int
	seen := map[string]string{}
	delegate := func(ctx fox.Context, kind string) {
		if !c.Delegate {
			return
		}
		if d := ctx.Fox().Route("GET", "/zz-c19-delegate/{x}"); d != nil {
			if len(kind)%2 == 0 {
				d.Handle(ctx)
			} else {
				d.HandleMiddleware(ctx)
			}
		}
	}
	special := func(kind string) fox.HandlerFunc {
		return func(ctx fox.Context) {
			if ctx.Request().Header.Get("X-C19-Decline") == "panic" {
				panic("c19: the no-route handler fails")
			}
			if ctx.Request().Header.Get("X-C19-Decline") != "" {
				ctx.Writer().WriteHeader(299)
				return
			}
			delegate(ctx, kind)
			seen[kind] = clientIP(ctx)
			ctx.Writer().WriteHeader(299)
		}
	}
	sharedOpts = nil
	if c.Shared {
		sharedOpts = map[string]fox.Option{}
	}
	defer func() { sharedOpts = nil }()
	gopts := toGlobal(c.Global, &trace)
	gopts = append(gopts, fox.WithNoRouteHandler(special("noroute")), fox.WithNoMethodHandler(special("nomethod")), fox.WithOptionsHandler(special("options")),
		fox.WithMiddlewareFor(fox.RedirectHandler, func(next fox.HandlerFunc) fox.HandlerFunc {
			return func(ctx fox.Context) { delegate(ctx, "redirect"); seen["redirect"] = clientIP(ctx); next(ctx) }
		}))
	f, e := fox.New(gopts...)
	if e != nil {
		return fmt.Errorf("case %+v: New rejected valid options: %v", *c, e)
	}
	if c.Delegate {
		if _, e := f.Handle("GET", "/zz-c19-delegate/{x}", func(fox.Context) {}, fox.WithClientIPResolver(res(9)), fox.WithMiddleware(func(next fox.HandlerFunc) fox.HandlerFunc { return next })); e != nil {
			return fmt.Errorf("case %+v: registering the delegate route: %v", *c, e)
		}
	}
	desc := fmt.Sprintf("global options %v, route options %v, pattern %q: ", c.Global, c.Route, c.Pattern)
	g := fold(state{}, c.Global, false)
	want := fold(state{ignore: g.ignore, redirect: g.redirect, resolver: g.resolver, mws: g.mws, ambiguousResolver: g.ambiguousResolver}, c.Route, true)
	info := f.Stats()
	if info.IgnoreTrailingSlash != g.ignore || info.RedirectTrailingSlash != g.redirect || (!g.ambiguousResolver && info.ClientIP != (g.resolver != 0)) {
		return fmt.Errorf("%srouter-wide settings ignore=%v redirect=%v resolver=%v, the global sequence gives ignore=%v redirect=%v resolver=%v", desc, info.IgnoreTrailingSlash, info.RedirectTrailingSlash, info.ClientIP, g.ignore, g.redirect, g.resolver != 0)
	}
	handler := func(ctx fox.Context) { seen["route"] = clientIP(ctx); ctx.Writer().WriteHeader(200) }
	rte, e := f.Handle("GET", c.Pattern, handler, toRoute(c.Route, &trace)...)
	if e != nil {
		return fmt.Errorf("%sHandle rejected valid options: %v", desc, e)
	}
	if err := checkAccessors(desc+"route returned by Handle: ", rte, c.Pattern, want); err != nil {
		return err
	}
	// NewRoute with the same options gives the same configuration
	nr, e := f.NewRoute(c.Pattern, handler, toRoute(c.Route, &trace)...)
	if e != nil {
		return fmt.Errorf("%sNewRoute rejected valid options: %v", desc, e)
	}
	if err := checkAccessors(desc+"route returned by NewRoute: ", nr, c.Pattern, want); err != nil {
		return err
	}
	if c.DoUpd {
		// Update: route options must be re-applied, nothing is inherited from the replaced route
		rte, e = f.Update("GET", c.Pattern, handler, toRoute(c.Update, &trace)...)
		if e != nil {
			return fmt.Errorf("%sUpdate with options %v rejected: %v", desc, c.Update, e)
		}
		want = fold(state{ignore: g.ignore, redirect: g.redirect, resolver: g.resolver, mws: g.mws, ambiguousResolver: g.ambiguousResolver}, c.Update, true)
		desc += fmt.Sprintf("then Update with options %v: ", c.Update)
		if err := checkAccessors(desc+"route returned by Update: ", rte, c.Pattern, want); err != nil {
			return err
		}
	}
	if got := f.Route("GET", c.Pattern); got != rte {
		return fmt.Errorf("%sRoute() does not return the registered route", desc)
	}
	// serve: middleware chain = global then route; ClientIP uses the route's resolver inside the route handler
	host, path := instantiate(c.Pattern)
	path = strings.ReplaceAll(path, "%", "%25") // a literal '%' of the pattern travels percent-encoded in the request target
	trace = trace[:0]
	req := httptest.NewRequest("GET", "http://"+hostOr(host)+path, nil)
	w := httptest.NewRecorder()
	f.ServeHTTP(w, req)
	if w.Code != 200 {
		return fmt.Errorf("%srequest %s%s answered %d", desc, host, path, w.Code)
	}
	if !eqInts(trace, want.mws) {
		return fmt.Errorf("%smiddleware trace %v, want %v (router-wide then route-specific)", desc, trace, want.mws)
	}
	if !want.ambiguousResolver && seen["route"] != wantIP(want.resolver) {
		return fmt.Errorf("%sContext.ClientIP inside the route handler = %s, want %s (the route's resolver)", desc, seen["route"], wantIP(want.resolver))
	}
	// other handler kinds use the router-wide resolver
	if !g.ambiguousResolver {
		f.ServeHTTP(httptest.NewRecorder(), httptest.NewRequest("GET", "http://"+hostOr(host)+"/definitely/not/registered/zz", nil))
		f.ServeHTTP(httptest.NewRecorder(), httptest.NewRequest("POST", "http://"+hostOr(host)+path, nil))
		f.ServeHTTP(httptest.NewRecorder(), httptest.NewRequest("OPTIONS", "http://"+hostOr(host)+path, nil))
		// the trailing-slash redirect handler, reached right after a request served by a route with its own resolver
		if _, err := f.Handle("GET", "/zz-c19-redirect/{id}/", handler, fox.WithRedirectTrailingSlash(true), fox.WithClientIPResolver(res(7))); err == nil {
			f.ServeHTTP(httptest.NewRecorder(), httptest.NewRequest("GET", "http://example.com/zz-c19-redirect/1/", nil))
			f.ServeHTTP(httptest.NewRecorder(), httptest.NewRequest("GET", "http://example.com/zz-c19-redirect/1", nil))
		}
		// a context obtained from Router.Lookup for the case's route, right after requests served by a route with another resolver
		if !want.ambiguousResolver {
			lreq := httptest.NewRequest("GET", "http://"+hostOr(host)+path, nil)
			if lr, cc, _ := f.Lookup(fox.NewTestContextOnly(httptest.NewRecorder(), lreq).Writer(), lreq); lr != nil {
				got := clientIP(cc)
				cc.Close()
				if lr.Pattern() == c.Pattern && got != wantIP(want.resolver) {
					return fmt.Errorf("%sContext.ClientIP on the context returned by Router.Lookup = %s, want %s (the route's resolver)", desc, got, wantIP(want.resolver))
				}
			}
		}
		for _, k := range []string{"noroute", "nomethod", "options", "redirect"} {
			if v, ok := seen[k]; ok && v != wantIP(g.resolver) {
				return fmt.Errorf("%sContext.ClientIP inside the %s handler = %s, want %s (the router-wide resolver)", desc, k, v, wantIP(g.resolver))
			}
		}
		if count {
			for _, k := range []string{"noroute", "nomethod", "options", "redirect"} {
				if _, ok := seen[k]; ok {
					stats.Class("clientip-checked-in:" + k)
				}
			}
		}
	} else if count {
		stats.Excluded("nil router-wide resolver after a real one: resolver aspects not judged")
	}
	// a route that declines its requests: its handler hands over to the router's no-route handler, which answers or fails
	// (panics); a middleware of the route contains the failure and then looks at the context again - it is still the context
	// of a request matched to this route, with this route's settings
	var declineErr error
	guard := func(next fox.HandlerFunc) fox.HandlerFunc {
		return func(ctx fox.Context) {
			func() {
				defer func() { _ = recover() }()
				next(ctx)
			}()
			if ctx.Route() == nil || ctx.Pattern() != "/zz-c19-decline/{x}" || ctx.Param("x") != "v" || clientIP(ctx) != ipOf(8) {
				declineErr = fmt.Errorf("%sroute /zz-c19-decline/{x} (own resolver #8) whose handler called Router.HandleNoRoute (no-route handler: %s): afterwards, in the route's middleware, Route()==nil is %v, Pattern()=%q, Param(x)=%q, ClientIP=%s; want the route, its pattern, \"v\" and %s",
					desc, ctx.Request().Header.Get("X-C19-Decline"), ctx.Route() == nil, ctx.Pattern(), ctx.Param("x"), clientIP(ctx), ipOf(8))
			}
		}
	}
	if _, e := f.Handle("GET", "/zz-c19-decline/{x}", func(ctx fox.Context) { ctx.Fox().HandleNoRoute(ctx) }, fox.WithClientIPResolver(res(8)), fox.WithMiddleware(guard)); e == nil {
		// a host no generated hostname pattern can match (five labels): the request is served by the path-only route just
		// registered; if it is not (the case's own pattern claims the request), the scenario says nothing and is left out
		const dhost = "zz.c19.decline.example.test"
		if rte, tsr := f.Reverse("GET", dhost, "/zz-c19-decline/v"); rte == nil || tsr || rte.Pattern() != "/zz-c19-decline/{x}" {
			return nil
		}
		for _, mode := range []string{"answers", "panic", "answers"} {
			dreq := httptest.NewRequest("GET", "http://"+dhost+"/zz-c19-decline/v", nil)
			dreq.Header.Set("X-C19-Decline", mode)
			f.ServeHTTP(httptest.NewRecorder(), dreq)
			if declineErr != nil {
				return declineErr
			}
		}
		if count {
			stats.Class("route-declining-through-HandleNoRoute")
		}
	}
	return nil
}

func hostOr(h string) string {
	if h == "" {
		return "example.com"
	}
	return h
}

func instantiate(p string) (string, string) {
	var sb strings.Builder
	last := 0
	for _, w := range ref.Wildcards(p) {
		sb.WriteString(p[last:w.Start])
		sb.WriteString("v")
		last = w.End
	}
	sb.WriteString(p[last:])
	s := sb.String()
	i := strings.IndexByte(s, '/')
	return s[:i], s[i:]
}

func genOpts(t *rapid.T, route bool, label string) []Opt {
	n := gen.IntR(t, 0, 6, label+"-n")
	var out []Opt
	for i := 0; i < n; i++ {
		kinds := []string{"ignore", "redirect", "resolver", "mw"}
		if route {
			kinds = append(kinds, "annot", "annot")
		}
		o := Opt{Kind: gen.Pick(t, kinds, label+"-kind")}
		switch o.Kind {
		case "ignore", "redirect":
			o.On = gen.Chance(t, 2, 3, "on")
		case "resolver":
			o.ID = gen.IntR(t, 0, 6, "resolver")
		case "mw":
			o.ID = gen.IntR(t, 1, 99, "mw")
		case "annot":
			o.Key, o.ID = gen.IntR(t, 0, len(annotKeys)-1, "akey"), gen.IntR(t, 0, 6, "aval") // 0 = nil value
		}
		out = append(out, o)
	}
	return out
}

func TestOptionSequences(t *testing.T) {
	rapid.Check(t, func(t *rapid.T) {
		c := &Case{Global: genOpts(t, false, "g"), Route: genOpts(t, true, "r"), Shared: gen.Chance(t, 1, 3, "shared"), Delegate: gen.Chance(t, 1, 3, "delegate")}
		for {
			c.Pattern = gen.Pattern(t, nil, 2, false)
			if ref.ValidPattern(c.Pattern, 65535, 65535) && !strings.Contains(c.Pattern, "//") {
				break
			}
		}
		// (only behind plain text: a byte such as '!' makes net/url keep the target in RawPath, where the percent sign reads %25)
		static, last := "", 0
		for _, w := range ref.Wildcards(c.Pattern) {
			static += c.Pattern[last:w.Start]
			last = w.End
		}
		static += c.Pattern[last:]
		plain := strings.IndexFunc(static, func(r rune) bool {
			return !(r >= 'a' && r <= 'z' || r >= 'A' && r <= 'Z' || r >= '0' && r <= '9' || strings.ContainsRune("/._-", r))
		}) < 0
		if ws := ref.Wildcards(c.Pattern); plain && gen.Chance(t, 1, 4, "percent") && (len(ws) == 0 || !ws[len(ws)-1].CatchAll || ws[len(ws)-1].End != len(c.Pattern)) {
			// static text with a literal percent sign (a discount, an already escaped byte): text like any other
			c.Pattern = strings.TrimSuffix(c.Pattern, "/") + gen.Pick(t, []string{"/100%sure", "/50%/x", "/a%2Fb", "/%d%v%w"}, "percenttext")
		}
		if gen.Chance(t, 1, 3, "update") {
			c.DoUpd, c.Update = true, genOpts(t, true, "u")
		}
		defer stats.Guard("options", func() any { return c })()
		stats.Eval()
		stats.Sample(c)
		// non-trivial: >= 2 options touch the same setting
		cnt := map[string]int{}
		for _, o := range append(append([]Opt{}, c.Global...), c.Route...) {
			k := o.Kind
			if k == "ignore" || k == "redirect" {
				k = "ts"
			}
			if k == "annot" {
				k = fmt.Sprint("annot", o.Key)
			}
			cnt[k]++
		}
		for k, n := range cnt {
			if n >= 2 && k != "mw" {
				stats.NonTrivial(fmt.Sprintf("%+v", *c))
				stats.Class("same-setting-touched-twice")
				break
			}
		}
		if c.Pattern[0] != '/' {
			stats.Class("hostname-pattern")
		}
		if c.DoUpd {
			stats.Class("with-update")
		}
		if c.Shared {
			stats.Class("equal-options-are-one-shared-value")
		}
		if err := checkCase(c, true); err != nil {
			stats.Fail("options", c, "%v", err)
			t.Fatalf("%v", err)
		}
	})
}

// ---- invalid values are rejected, never panic, and leave the router unchanged ----

type InvalidCase struct {
	What string `json:"what"`
	// Setup: what the router the invalid value is offered to already carries: "" nothing, "global-mw" a middleware for all
	// handlers, "route-scope-mw" a middleware scoped to route handlers, "default-options" fox.DefaultOptions()
	Setup string `json:"setup,omitempty"`
}

var invalidSetups = []string{"", "global-mw", "route-scope-mw", "default-options"}

type sliceKey []int
type holder struct{ V any }
type deep struct{ H holder }

var invalidKeys = map[string]any{
	"annotation key nil":                                    nil,
	"annotation key slice":                                  []int{1},
	"annotation key map":                                    map[string]int{},
	"annotation key func":                                   func() {},
	"annotation key named slice":                            sliceKey{1},
	"annotation key struct with slice field":                struct{ S []int }{[]int{1}},
	"annotation key array of slices":                        [1][]int{{1}},
	"annotation key struct holding slice in interface":      holder{[]int{1}},
	"annotation key nested struct holding map in interface": deep{holder{map[int]int{}}},
	"annotation key array of interfaces holding func":       [1]any{func() {}},
	"annotation key pointer to slice (valid)":               &[]int{1},
}

var invalidNames = func() []string {
	out := []string{"nil route handler (Handle)", "nil route handler (Update)", "nil route handler (Handle, with route middleware)", "nil route handler (Update, with route middleware)",
		"nil route handler (Txn.Handle)", "nil route handler (Txn.Update)", "nil no-route handler", "nil no-method handler", "nil options handler",
		"nil global middleware", "nil global middleware among valid ones", "nil scoped middleware", "nil route middleware", "nil route", "nil route (UpdateRoute)"}
	for k := range invalidKeys {
		out = append(out, k)
	}
	// deterministic order
	for i := range out {
		for j := i + 1; j < len(out); j++ {
			if out[j] < out[i] {
				out[i], out[j] = out[j], out[i]
			}
		}
	}
	return out
}()

func checkInvalid(c *InvalidCase) (err error) {
	defer func() {
		if r := recover(); r != nil {
			err = fmt.Errorf("%s: panic instead of an error: %v", c.What, r)
		}
	}()
	h := func(fox.Context) {}
	mw := func(next fox.HandlerFunc) fox.HandlerFunc { return next }
	expectCfg := func(e error) error {
		if !errors.Is(e, fox.ErrInvalidConfig) && !errors.Is(e, fox.ErrInvalidRoute) {
			return fmt.Errorf("%s: got err=%v, want ErrInvalidConfig or ErrInvalidRoute", c.What, e)
		}
		return nil
	}
	switch c.What {
	case "nil no-route handler":
		_, e := fox.New(fox.WithNoRouteHandler(nil))
		return expectCfg(e)
	case "nil no-method handler":
		_, e := fox.New(fox.WithNoMethodHandler(nil))
		return expectCfg(e)
	case "nil options handler":
		_, e := fox.New(fox.WithOptionsHandler(nil))
		return expectCfg(e)
	case "nil global middleware":
		_, e := fox.New(fox.WithMiddleware(nil))
		return expectCfg(e)
	case "nil global middleware among valid ones":
		_, e := fox.New(fox.WithMiddleware(mw, nil, mw))
		return expectCfg(e)
	case "nil scoped middleware":
		_, e := fox.New(fox.WithMiddlewareFor(fox.NoRouteHandler, nil))
		return expectCfg(e)
	}
	var setup []fox.GlobalOption
	switch c.Setup {
	case "global-mw":
		setup = append(setup, fox.WithMiddleware(mw))
	case "route-scope-mw":
		setup = append(setup, fox.WithMiddlewareFor(fox.RouteHandler, mw))
	case "default-options":
		setup = append(setup, fox.DefaultOptions())
	}
	f, e := fox.New(setup...)
	if e != nil {
		return e
	}
	if c.Setup != "" {
		c = &InvalidCase{What: c.What + " on a router with " + c.Setup, Setup: c.Setup}
	}
	what := strings.TrimSuffix(c.What, " on a router with "+c.Setup)
	f.MustHandle("GET", "/existing", h)
	unchanged := func() error {
		if f.Len() != 1 || !f.Has("GET", "/existing") || f.Has("GET", "/new/{a}") {
			return fmt.Errorf("%s: the router changed after the rejected call (Len=%d)", c.What, f.Len())
		}
		w := httptest.NewRecorder()
		f.ServeHTTP(w, httptest.NewRequest("GET", "/new/x", nil))
		if w.Code != http.StatusNotFound {
			return fmt.Errorf("%s: /new/x is served (%d) after the rejected registration", c.What, w.Code)
		}
		return nil
	}
	switch what {
	case "nil route handler (Handle)":
		_, e = f.Handle("GET", "/new/{a}", nil)
	case "nil route handler (Update)":
		_, e = f.Update("GET", "/existing", nil)
	case "nil route handler (Handle, with route middleware)":
		_, e = f.Handle("GET", "/new/{a}", nil, fox.WithMiddleware(mw))
	case "nil route handler (Update, with route middleware)":
		_, e = f.Update("GET", "/existing", nil, fox.WithMiddleware(mw))
	case "nil route handler (Txn.Handle)":
		_ = f.Updates(func(txn *fox.Txn) error { _, e = txn.Handle("GET", "/new/{a}", nil, fox.WithMiddleware(mw)); return e })
	case "nil route handler (Txn.Update)":
		_ = f.Updates(func(txn *fox.Txn) error { _, e = txn.Update("GET", "/existing", nil, fox.WithMiddleware(mw)); return e })
	case "nil route middleware":
		_, e = f.Handle("GET", "/new/{a}", h, fox.WithMiddleware(mw, nil))
	case "nil route":
		e = f.HandleRoute("GET", nil)
	case "nil route (UpdateRoute)":
		e = f.UpdateRoute("GET", nil)
	default:
		key, ok := invalidKeys[what]
		if !ok {
			return fmt.Errorf("unknown invalid case %q", c.What)
		}
		_, e = f.Handle("GET", "/new/{a}", h, fox.WithAnnotation(key, 1))
		if strings.Contains(what, "(valid)") {
			if e != nil {
				return fmt.Errorf("%s: rejected: %v", c.What, e)
			}
			if r := f.Route("GET", "/new/{a}"); r == nil || r.Annotation(key) != 1 {
				return fmt.Errorf("%s: annotation not retrievable", c.What)
			}
			return nil
		}
		if _, e2 := f.NewRoute("/new/{a}", h, fox.WithAnnotation(key, 1)); expectCfg(e2) != nil {
			return fmt.Errorf("%s: NewRoute: %v", c.What, expectCfg(e2))
		}
		if _, e3 := f.Update("GET", "/existing", h, fox.WithAnnotation(key, 1)); expectCfg(e3) != nil {
			return fmt.Errorf("%s: Update: %v", c.What, expectCfg(e3))
		}
	}
	if err := expectCfg(e); err != nil {
		return err
	}
	return unchanged()
}

// ManyCase: a route with N wildcards (parameters, the last one optionally a catch-all, the first optionally a hostname label).
type ManyCase struct {
	N        int  `json:"n"`
	CatchAll bool `json:"catch_all,omitempty"`
	Host     bool `json:"host,omitempty"`
}

func (c *ManyCase) pattern() string {
	var sb strings.Builder
	n := c.N
	if c.Host {
		sb.WriteString("{h}.example.com")
		n--
	}
	for i := 0; i < n; i++ {
		if c.CatchAll && i == n-1 {
			sb.WriteString("/*{c}")
		} else {
			sb.WriteString("/{p}")
		}
	}
	if n <= 0 {
		sb.WriteString("/")
	}
	return sb.String()
}

// checkMany: whenever the router accepts the pattern, the route's accessors describe it - whatever the number of wildcards.
// (Whether a count must be refused is C10's business: a refusal is not judged here.)
func checkMany(c *ManyCase) error {
	f, err := fox.New()
	if err != nil {
		return err
	}
	p := c.pattern()
	desc := fmt.Sprintf("route with %d wildcards (host label: %v, ending catch-all: %v): ", c.N, c.Host, c.CatchAll)
	for _, how := range []string{"NewRoute", "Handle"} {
		var rte *fox.Route
		var err error
		if how == "NewRoute" {
			rte, err = f.NewRoute(p, func(fox.Context) {})
		} else {
			rte, err = f.Handle("GET", p, func(fox.Context) {})
		}
		if err != nil {
			if !errors.Is(err, fox.ErrInvalidRoute) {
				return fmt.Errorf("%s%s refused it with %v, which does not match ErrInvalidRoute", desc, how, err)
			}
			continue
		}
		if rte.ParamsLen() != c.N {
			return fmt.Errorf("%s%s accepted it, ParamsLen() = %d", desc, how, rte.ParamsLen())
		}
		if rte.Pattern() != p || rte.Hostname()+rte.Path() != p {
			return fmt.Errorf("%s%s accepted it, Pattern/Hostname+Path differ from the pattern (lengths %d, %d+%d, want %d)", desc, how, len(rte.Pattern()), len(rte.Hostname()), len(rte.Path()), len(p))
		}
	}
	return nil
}

func TestAccessorsManyWildcards(t *testing.T) {
	n := 0
	for _, cnt := range []int{1, 2, 3, 254, 255, 256, 257, 4095, 4096, 32767, 32768, 65534, 65535, 65536, 65537, 70000, 131072, 131073} {
		for _, ca := range []bool{false, true} {
			for _, host := range []bool{false, true} {
				if host && cnt < 2 {
					continue
				}
				c := &ManyCase{N: cnt, CatchAll: ca, Host: host}
				stats.Eval()
				stats.NonTrivial(fmt.Sprintf("many|%+v", *c))
				stats.Class("route-with-many-wildcards")
				if n++; n%9 == 1 {
					stats.Sample(c)
				}
				if err := checkMany(c); err != nil {
					stats.Fail("many-wildcards", c, "%v", err)
					t.Fatalf("%v", err)
				}
			}
		}
	}
}

func TestInvalidOptions(t *testing.T) {
	for _, name := range invalidNames {
		for _, setup := range invalidSetups {
			c := &InvalidCase{What: name, Setup: setup}
			stats.Eval()
			stats.NonTrivial("invalid|" + name + "|" + setup)
			stats.Class("ill-typed-or-nil-value")
			if err := checkInvalid(c); err != nil {
				stats.Fail("invalid-option", c, "%v", err)
				t.Errorf("%v", err)
			}
		}
	}
	stats.Sample(InvalidCase{What: invalidNames[0]})
}

// ---- sequences of annotation keys: whether a key is accepted depends on that key alone, not on the keys seen before ----

// keyPool pairs keys of the same Go type whose usability as a map key differs by dynamic value.
var keyPool = []struct {
	Name string
	Key  any
}{
	{"holder{int}", holder{1}}, {"holder{[]int}", holder{[]int{1}}}, {"holder{string}", holder{"s"}}, {"holder{map}", holder{map[int]int{}}},
	{"[1]any{int}", [1]any{1}}, {"[1]any{func}", [1]any{func() {}}}, {"[1]any{string}", [1]any{"x"}},
	{"deep{holder{int}}", deep{holder{2}}}, {"deep{holder{[]int}}", deep{holder{[]int{2}}}},
	{"akey", akey{9}}, {"string", "k"}, {"[]int", []int{1}}, {"*int", new(int)}, {"struct{any}{nil}", struct{ V any }{nil}}, {"struct{any}{[]byte}", struct{ V any }{[]byte("x")}},
}

type KeySeqCase struct {
	Keys    []int `json:"keys"` // indexes into the key pool, used in this order on one router
	ViaNew  bool  `json:"via_new_route,omitempty"`
	Routers int   `json:"routers,omitempty"` // >1: spread over that many routers (the rule is per key, not per router)
}

// hashable is the ground truth: the key can be used in a map without panicking.
func hashable(k any) (ok bool) {
	defer func() {
		if recover() != nil {
			ok = false
		}
	}()
	_ = map[any]int{k: 1}
	return k != nil
}

func checkKeySeq(c *KeySeqCase) (err error) {
	var desc []string
	defer func() {
		if r := recover(); r != nil {
			err = fmt.Errorf("annotation keys %v: panic instead of an error: %v", desc, r)
		}
	}()
	h := func(fox.Context) {}
	n := max(c.Routers, 1)
	fs := make([]*fox.Router, n)
	for i := range fs {
		f, e := fox.New()
		if e != nil {
			return e
		}
		fs[i] = f
	}
	for i, ki := range c.Keys {
		if ki < 0 || ki >= len(keyPool) {
			return fmt.Errorf("bad key index %d", ki)
		}
		k := keyPool[ki]
		desc = append(desc, k.Name)
		f := fs[i%n]
		pat := fmt.Sprintf("/k/%d", i)
		var rte *fox.Route
		var e error
		if c.ViaNew {
			rte, e = f.NewRoute(pat, h, fox.WithAnnotation(k.Key, i+1))
		} else {
			rte, e = f.Handle("GET", pat, h, fox.WithAnnotation(k.Key, i+1))
		}
		if hashable(k.Key) {
			if e != nil {
				return fmt.Errorf("annotation keys used in order %v: the valid key %s was rejected: %v", desc, k.Name, e)
			}
			if got := rte.Annotation(k.Key); got != i+1 {
				return fmt.Errorf("annotation keys used in order %v: Annotation(%s) = %v, want %d", desc, k.Name, got, i+1)
			}
		} else if !errors.Is(e, fox.ErrInvalidConfig) {
			return fmt.Errorf("annotation keys used in order %v: the key %s cannot be a map key, got err=%v, want ErrInvalidConfig", desc, k.Name, e)
		}
	}
	return nil
}

func TestAnnotationKeySequences(t *testing.T) {
	rapid.Check(t, func(t *rapid.T) {
		c := &KeySeqCase{ViaNew: gen.Chance(t, 1, 3, "vianew"), Routers: gen.IntR(t, 1, 2, "routers")}
		for i, n := 0, gen.IntR(t, 2, 8, "nkeys"); i < n; i++ {
			c.Keys = append(c.Keys, gen.IntR(t, 0, len(keyPool)-1, "key"))
		}
		stats.Eval()
		stats.Sample(c)
		stats.Class("annotation-key-sequence")
		stats.NonTrivial(fmt.Sprintf("keyseq|%v|%v|%d", c.Keys, c.ViaNew, c.Routers))
		if err := checkKeySeq(c); err != nil {
			stats.Fail("annotation-keys", c, "%v", err)
			t.Fatalf("%v", err)
		}
	})
}
