ENTRY = {
    "C19": dict(
        pkg="c19", level="exploration",
        technique="property-based testing of option sequences against a left-fold model of the documented override rules, plus an enumerated family of nil / ill-typed option values that must be rejected without panicking",
        level_text="Sequences of router-wide options (trailing-slash modes on/off in any order, resolvers, middleware) and of route options (the same plus nil "
                   "resolvers and annotations with repeated keys of seven key types), optionally followed by Update with another sequence, are folded by a small model; "
                   "the route's accessors (Pattern/Hostname/Path, ParamsLen, both trailing-slash flags, ClientIPResolver, Annotation), the middleware trace and "
                   "Context.ClientIP inside the route handler and inside the 404/405/OPTIONS handlers must agree with it. Nil handlers, nil middleware, nil routes and "
                   "routes with up to 131073 wildcards keep ParamsLen equal to their count whenever they are accepted; eleven kinds of annotation key (nil, slice, map, func, structs/arrays/interfaces holding those) must give ErrInvalidConfig/ErrInvalidRoute, no panic, and an unchanged router.",
        level_note="A nil router-wide resolver given after a real one is not judged (documentation and code differ, the property only speaks of per-route nil). NewRoute with a nil handler is not probed (not named by the property).",
        level_more='Later additions: option values shared between routers, resolvers whose value is the zero value of its type, a route that declines its requests through Router.HandleNoRoute (answering or panicking no-route handler), patterns with a percent sign, 30-wildcard accessors.',
        rule="cases: (global option sequence, route option sequence, pattern[, update sequence]) and invalid-value cases; non-trivial = at least two options touch the same setting, or an ill-typed/nil value; distinct by the whole case",
        assumptions=["resolvers return distinguishable addresses", "global options are immutable after New"],
        quick=[REPLAY, R("options", "^(TestOptionSequences|TestInvalidOptions|TestAccessorsManyWildcards)$", checks=8000, timeout=600),
               R("annotation-keys", "^TestAnnotationKeySequences$", checks=3000, timeout=600)],
        thorough=[REPLAY, R("options", "^(TestOptionSequences|TestInvalidOptions|TestAccessorsManyWildcards)$", checks=100000, shards=16, timeout=3000),
                  R("annotation-keys", "^TestAnnotationKeySequences$", checks=50000, shards=4, timeout=3000)],
    ),
}
