// C11 — unserved requests get the right 404/405/OPTIONS answer and Allow header.
package c11

import (
	"encoding/json"
	"fmt"
	"net/http"
	"os"
	"sort"
	"strings"
	"testing"

	"github.com/tigerwill90/fox"
	"pgregory.net/rapid"

	"verif/gen"
	"verif/ref"
	"verif/rt"
	"verif/stats"
)

func TestMain(m *testing.M) {
	stats.Init("C11")
	stats.RegisterReplay("unserved", func(raw json.RawMessage) error {
		var c Case
		if err := json.Unmarshal(raw, &c); err != nil {
			return err
		}
		return checkCase(&c, false)
	})
	os.Exit(stats.Finish(m.Run()))
}

func TestReplay(t *testing.T) { stats.RunReplays(t) }

type Case struct {
	G      rt.Global      `json:"global"`
	Routes []rt.RouteSpec `json:"routes"`
	Reqs   []rt.Req       `json:"reqs"`
	// PresetAllow: the response header already carries this Allow value when the router is entered (set by an outer net/http
	// middleware); the Allow header of the answer lists the computed methods all the same.
	PresetAllow string `json:"preset_allow,omitempty"`
}

func hasBoth(pats []string) bool {
	p, c := false, false
	for _, s := range pats {
		for _, w := range ref.Wildcards(s) {
			if w.CatchAll {
				c = true
			} else {
				p = true
			}
		}
	}
	return p && c
}

func splitAllow(h string) []string {
	if h == "" {
		return nil
	}
	var out []string
	for _, s := range strings.Split(h, ",") {
		out = append(out, strings.TrimSpace(s))
	}
	sort.Strings(out)
	return out
}

func setStr(m map[string]bool) []string {
	var out []string
	for k := range m {
		out = append(out, k)
	}
	sort.Strings(out)
	return out
}

func eq(a, b []string) bool {
	if len(a) != len(b) {
		return false
	}
	for i := range a {
		if a[i] != b[i] {
			return false
		}
	}
	return true
}

var scopeOf = map[string]fox.HandlerScope{
	"noroute": fox.NoRouteHandler, "nomethod": fox.NoMethodHandler, "options": fox.OptionsHandler, "redirect": fox.RedirectHandler, "route": fox.RouteHandler,
}

func checkCase(c *Case, count bool) error {
	r, err := rt.New(c.G, c.Routes)
	if err != nil {
		return nil
	}
	methods := r.Methods()
	for _, q := range c.Reqs {
		if q.Path != "*" {
			// the documented idiom for "which methods serve this url"
			if d := rt.IterReverseDiff(r.F, q.Host, q.Path); d != "" {
				return fmt.Errorf("options=%+v routes=%v: %s", c.G, r.Routes, d)
			}
		}
		host := ref.StripHost(q.Host)
		// per-method oracle: does method m have a route serving this host and path?
		skip := ""
		serves := map[string]bool{}
		viaIgnore := false
		own := "unserved" // how the request's own method fares: "route", "redirect", "unserved"
		star := q.Method == http.MethodOptions && q.Path == "*"
		for _, m := range methods {
			pats := r.Patterns(m)
			if rt.ExcludedE(q.Path, pats) && !star {
				skip = "open finding E: request contains '*' and a method has both a parameter and a catch-all"
				break
			}
			want, ok := ref.LookupAll(pats, host, q.Path)
			if !ok {
				skip = "catch-all value would start with '/' (undocumented for infix catch-alls)"
				break
			}
			if want.Route < 0 {
				continue
			}
			spec, _ := r.Spec(m, pats[want.Route])
			mode := rt.EffectiveTS(c.G, spec)
			if !want.Tsr {
				serves[m] = true
			} else if mode == rt.TSIgnore {
				serves[m] = true
				viaIgnore = true
			}
			if m == q.Method {
				switch {
				case !want.Tsr:
					own = "route"
				case q.Path == "/":
				case q.Method == http.MethodConnect:
					// a CONNECT request is never served or redirected through a trailing-slash adjustment
				case mode == rt.TSIgnore:
					own = "route"
				case mode == rt.TSRedirect && ref.CleanPath(q.Path) == q.Path:
					own = "redirect"
				}
			}
		}
		if skip != "" {
			if count {
				stats.Excluded(skip)
			}
			continue
		}
		if c.PresetAllow != "" {
			r.Preset = http.Header{"Allow": {c.PresetAllow}}
		}
		sv := r.ServeReq(q)
		desc := fmt.Sprintf("options=%+v routes=%v request %s host=%q path=%q: methods serving this host and path = %v; ", c.G, r.Routes, q.Method, q.Host, q.Path, setStr(serves))
		if len(sv.Hits) != 1 {
			return fmt.Errorf("%sServeHTTP ran %d handlers", desc, len(sv.Hits))
		}
		h := sv.Hits[0]
		allow := splitAllow(strings.Join(sv.Header.Values("Allow"), ", "))
		expect := own
		var wantAllow [][]string // acceptable Allow sets
		if own == "unserved" {
			expect = "noroute"
			switch {
			case q.Method == http.MethodOptions && c.G.AutoOptions:
				set := map[string]bool{}
				if star {
					for _, m := range methods {
						if m != http.MethodOptions {
							set[m] = true
						}
					}
					if len(set) == 0 && len(methods) > 0 {
						if count {
							stats.Excluded("OPTIONS * with only OPTIONS routes registered: the property does not settle it")
						}
						continue
					}
				} else {
					for m := range serves {
						set[m] = true
					}
				}
				if len(set) > 0 {
					set[http.MethodOptions] = true
					expect = "options"
					wantAllow = [][]string{setStr(set)}
				}
			case c.G.NoMethod:
				set := map[string]bool{}
				for m := range serves {
					if m != q.Method {
						set[m] = true
					}
				}
				if len(set) > 0 {
					expect = "nomethod"
					if c.G.AutoOptions {
						// With automatic OPTIONS replies enabled every such path also answers OPTIONS, and fox lists it
						// (pinned by its own TestRouterWithAllowedMethodAndAutoOptions); "the other such methods" is read
						// accordingly: OPTIONS is always part of the set then.
						set[http.MethodOptions] = true
					}
					wantAllow = [][]string{setStr(set)}
				}
			}
		}
		if h.Kind != expect {
			return fmt.Errorf("%sexpected the %s handler, ServeHTTP ran %s (status %d, Allow %q)", desc, expect, h.Kind, sv.Code, sv.Header.Get("Allow"))
		}
		if wantAllow != nil {
			ok := false
			for _, w := range wantAllow {
				if eq(allow, w) {
					ok = true
				}
			}
			if !ok {
				return fmt.Errorf("%s%s handler ran with Allow %q (Allow %q was on the response header before), want the set %v", desc, h.Kind, sv.Header.Values("Allow"), c.PresetAllow, wantAllow[len(wantAllow)-1])
			}
		}
		if h.Kind != "route" {
			if h.CloneWithDiff != "" {
				return fmt.Errorf("%sinside the %s handler: %s", desc, h.Kind, h.CloneWithDiff)
			}
			if !h.RouteNil || h.Pattern != "" || len(h.Params) != 0 {
				return fmt.Errorf("%sinside the %s handler the context exposes route-nil=%v pattern=%q params=%v", desc, h.Kind, h.RouteNil, h.Pattern, h.Params)
			}
		}
		if h.Scope != scopeOf[h.Kind] {
			return fmt.Errorf("%sinside the %s handler Scope() = %d, want %d", desc, h.Kind, h.Scope, scopeOf[h.Kind])
		}
		if count {
			stats.Class("answer:" + expect)
			if star {
				stats.Class("options-star")
			}
			if (expect == "options" || expect == "nomethod") && (len(serves) >= 2 || viaIgnore) {
				if viaIgnore {
					stats.Class("allow-includes-ignored-trailing-slash-route")
				}
				var rs []string
				for _, s := range r.Routes {
					rs = append(rs, fmt.Sprintf("%s %s %d", s.Method, s.Pattern, s.TS))
				}
				sort.Strings(rs)
				stats.NonTrivial(fmt.Sprintf("%+v|%s|%s|%s|%s", c.G, strings.Join(rs, ","), q.Method, q.Host, q.Path))
			}
		}
	}
	return nil
}

var regMethods = []string{"GET", "POST", "PUT", "DELETE", "PATCH", "OPTIONS", "FOO"}
var reqMethods = []string{"GET", "POST", "PUT", "DELETE", "PATCH", "OPTIONS", "OPTIONS", "FOO", "BAR", "HEAD", "CONNECT", "CONNECT"}

func genCase(t *rapid.T) *Case {
	c := &Case{}
	c.G.TS = gen.Pick(t, []int{rt.TSNone, rt.TSIgnore, rt.TSRedirect}, "globalTS")
	c.G.OneTxn = gen.Chance(t, 1, 4, "onetxn")
	c.G.NoMethod = rapid.Bool().Draw(t, "noMethod")
	c.G.AutoOptions = rapid.Bool().Draw(t, "autoOptions")
	c.G.NoMethodOff = !c.G.NoMethod && gen.Chance(t, 1, 3, "nomethodoff")
	if gen.Chance(t, 1, 3, "defaultspecials") {
		// fox's own 405 / automatic-OPTIONS handlers, observed by a middleware
		c.G.DefaultSpecials, c.G.NoMethodOff = true, false
	}
	if gen.Chance(t, 1, 4, "presetallow") {
		c.PresetAllow = gen.Pick(t, []string{"TRACE", "GET, BREW", "OPTIONS"}, "presetallowvalue")
	}
	n := gen.IntR(t, 1, 6, "npatterns")
	hostW := gen.Pick(t, []int{3, 1000, 1000}, "hostweight")
	var pool []string
	for i := 0; i < n; i++ {
		p := gen.Pattern(t, pool, hostW, false)
		pool = append(pool, p)
		ms := rapid.SliceOfNDistinct(rapid.SampledFrom(regMethods), 1, 3, rapid.ID[string]).Draw(t, "methods")
		for _, m := range ms {
			ts := gen.Pick(t, []int{0, 0, 0, rt.TSIgnore, rt.TSRedirect, rt.TSOff}, "routeTS")
			pat := p
			if gen.IntR(t, 0, 5, "slashvariant") == 0 {
				// same path under another method, differing only by the trailing slash
				if strings.HasSuffix(pat, "/") && len(pat) > 1 && !strings.HasSuffix(pat, "//") {
					pat = pat[:len(pat)-1]
				} else {
					pat += "/"
				}
			}
			c.Routes = append(c.Routes, rt.RouteSpec{Method: m, Pattern: pat, TS: ts})
		}
	}
	nreq := gen.IntR(t, 1, 6, "nreq")
	for i := 0; i < nreq; i++ {
		if gen.IntR(t, 0, 12, "star") == 0 {
			c.Reqs = append(c.Reqs, rt.Req{Method: "OPTIONS", Path: "*"})
			continue
		}
		src := gen.Pick(t, c.Routes, "src")
		if !ref.ValidPattern(src.Pattern, 1<<16, 1<<16) {
			continue
		}
		host, path := gen.Instantiate(t, src.Pattern)
		path = gen.MutatePath(t, path)
		if gen.IntR(t, 0, 4, "hostmut") == 0 {
			host = gen.MutateHost(t, host)
		}
		if strings.Contains(path, "//") {
			continue
		}
		q := rt.Req{Method: gen.Pick(t, reqMethods, "reqmethod"), Host: host, Path: path}
		if gen.Chance(t, 1, 5, "escaped") {
			// a request target with an escaped slash inside a segment: the router works on the escaped form for the request's own
			// method and for every other method alike
			segs := strings.Split(path, "/")
			if k := gen.IntR(t, 1, max(len(segs)-1, 1), "escat"); k < len(segs) && segs[k] != "" {
				segs[k] = gen.Pick(t, []string{"a%2Fb", "x%2Fa", "a%2F"}, "escval")
				q.Path, q.Escaped = strings.Join(segs, "/"), true
			}
		}
		c.Reqs = append(c.Reqs, q)
	}
	// request header fields a browser or a proxy adds: none of them changes which methods serve a path
	for i := range c.Reqs {
		if gen.Chance(t, 1, 3, "reqheader") {
			c.Reqs[i].Header = gen.Pick(t, [][]string{
				{"Origin: https://app.example", "Access-Control-Request-Method: POST"},
				{"Origin: https://app.example", "Access-Control-Request-Method: DELETE", "Access-Control-Request-Headers: x-token"},
				{"Origin: null"},
				{"Access-Control-Request-Method: GET"},
				{"Allow: BREW", "Accept: */*"},
				{"X-Http-Method-Override: GET", "X-Forwarded-Host: a.b"},
			}, "reqheaders")
		}
	}
	return c
}

func TestRandom(t *testing.T) {
	rapid.Check(t, func(t *rapid.T) {
		c := genCase(t)
		defer stats.Guard("unserved", func() any { return c })()
		stats.EvalN(len(c.Reqs))
		stats.Sample(c)
		if err := checkCase(c, true); err != nil {
			stats.Fail("unserved", c, "%v", err)
			t.Fatalf("%v", err)
		}
	})
}

// exhaustive: 3 methods x small pattern pool (each method picks one of the patterns or none) x all option combinations x all short paths
func TestExhaustive(t *testing.T) {
	pool := []string{"", "/a", "/a/", "/{p0}", "/{p0}/", "/*{c0}", "/a/b", "/a/{p1}/"}
	ms := []string{"GET", "POST", "OPTIONS"}
	paths := []string{"/", "/a", "/a/", "/b", "/b/", "/a/b", "/a/b/", "/a/a/a", "*"}
	n := 0
	for i := range pool {
		for j := range pool {
			for k := range pool {
				var routes []rt.RouteSpec
				for x, p := range []string{pool[i], pool[j], pool[k]} {
					if p != "" {
						routes = append(routes, rt.RouteSpec{Method: ms[x], Pattern: p})
					}
				}
				if len(routes) == 0 {
					continue
				}
				for g := 0; g < 12; g++ {
					c := &Case{G: rt.Global{TS: g % 3, NoMethod: g/3%2 == 1, AutoOptions: g/6 == 1}, Routes: routes}
					for _, p := range paths {
						for _, m := range []string{"GET", "POST", "OPTIONS", "PUT"} {
							if p == "*" && m != "OPTIONS" {
								continue
							}
							c.Reqs = append(c.Reqs, rt.Req{Method: m, Path: p})
						}
					}
					stats.EvalN(len(c.Reqs))
					if n++; n%500 == 1 {
						stats.Sample(&Case{G: c.G, Routes: routes, Reqs: c.Reqs[:4]})
					}
					if err := checkCase(c, true); err != nil {
						for _, q := range c.Reqs {
							one := &Case{G: c.G, Routes: routes, Reqs: []rt.Req{q}}
							if e := checkCase(one, false); e != nil {
								stats.Fail("unserved", one, "%v", e)
								t.Fatalf("%v", e)
							}
						}
						stats.Fail("unserved", c, "%v", err)
						t.Fatalf("%v", err)
					}
				}
			}
		}
	}
	stats.Note("exhaustive", fmt.Sprintf("GET/POST/OPTIONS each registering one of %d patterns or none x 12 option combinations x %d paths x 4 request methods", len(pool)-1, len(paths)))
}
