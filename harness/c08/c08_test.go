// C08 — trailing-slash actions happen exactly when a slash-adjusted route exists.
package c08

import (
	"encoding/json"
	"fmt"
	"net/http"
	"net/url"
	"os"
	"reflect"
	"sort"
	"strconv"
	"strings"
	"testing"

	"pgregory.net/rapid"

	"verif/gen"
	"verif/ref"
	"verif/rt"
	"verif/stats"
)

func TestMain(m *testing.M) {
	stats.Init("C08")
	stats.RegisterReplay("tsr", func(raw json.RawMessage) error {
		var c Case
		if err := json.Unmarshal(raw, &c); err != nil {
			return err
		}
		return checkCase(&c, false)
	})
	stats.RegisterReplay("empty-path", func(raw json.RawMessage) error {
		var c EmptyCase
		if err := json.Unmarshal(raw, &c); err != nil {
			return err
		}
		return checkEmpty(&c)
	})
	os.Exit(stats.Finish(m.Run()))
}

func TestReplay(t *testing.T) { stats.RunReplays(t) }

// Req is a request given by its encoded request-target, as a server would receive it.
type Req struct {
	Method string `json:"method"`
	Host   string `json:"host"`
	Target string `json:"target"`
}

type Case struct {
	G      rt.Global      `json:"global"`
	Routes []rt.RouteSpec `json:"routes"`
	Extra  []rt.RouteSpec `json:"extra_routes,omitempty"` // metamorphic: routes that match neither the path nor its adjusted form
	Reqs   []Req          `json:"reqs"`
}

func hasBoth(pats []string) bool {
	p, c := false, false
	for _, s := range pats {
		for _, w := range ref.Wildcards(s) {
			if w.CatchAll {
				c = true
			} else {
				p = true
			}
		}
	}
	return p && c
}

func adjust(p string) string {
	if len(p) > 1 && strings.HasSuffix(p, "/") {
		return p[:len(p)-1]
	}
	return p + "/"
}

func sameParams(a, b []ref.Param) bool {
	if len(a) == 0 && len(b) == 0 {
		return true
	}
	return reflect.DeepEqual(a, b)
}

func build(q Req) (*http.Request, string, bool) {
	u, err := url.ParseRequestURI(q.Target)
	if err != nil {
		return nil, "", false
	}
	req := &http.Request{Method: q.Method, URL: u, Proto: "HTTP/1.1", ProtoMajor: 1, ProtoMinor: 1, Header: http.Header{},
		Host: q.Host, RemoteAddr: "192.0.2.1:1234", RequestURI: q.Target, Body: http.NoBody}
	rp := u.Path
	if u.RawPath != "" {
		rp = u.RawPath
	}
	return req, rp, true
}

// canon normalises an escaped path segment by segment (so "*" and "%2A" compare equal while "%2F" stays distinct from "/").
func canon(escaped string) string {
	segs := strings.Split(escaped, "/")
	for i, s := range segs {
		if u, err := url.PathUnescape(s); err == nil {
			segs[i] = url.PathEscape(u)
		}
	}
	return strings.Join(segs, "/")
}

type outcome struct {
	Code     int
	Kind     string
	Pattern  string
	Params   []ref.Param
	Location string
}

func serve(r *rt.Router, q Req) (outcome, error) {
	req, _, _ := build(q)
	sv := r.Serve(req)
	if len(sv.Hits) != 1 {
		return outcome{}, fmt.Errorf("ServeHTTP ran %d handlers", len(sv.Hits))
	}
	h := sv.Hits[0]
	if m := h.WrapMismatch(); m != "" {
		return outcome{}, fmt.Errorf("%s", m)
	}
	return outcome{sv.Code, h.Kind, h.Pattern, h.Params, sv.Header.Get("Location")}, nil
}

func checkCase(c *Case, count bool) error {
	r, err := rt.New(c.G, c.Routes)
	if err != nil {
		return nil
	}
	var rx *rt.Router
	if len(c.Extra) > 0 {
		rx, _ = rt.New(c.G, append(append([]rt.RouteSpec(nil), c.Routes...), c.Extra...))
	}
	for _, q := range c.Reqs {
		req, rp, ok := build(q)
		if !ok || strings.Contains(rp, "//") || rp == "" || rp[0] != '/' {
			continue
		}
		pats := r.Patterns(q.Method)
		if rt.ExcludedE(rp, pats) {
			if count {
				stats.Excluded("open finding E: request contains '*' and the method has both a parameter and a catch-all")
			}
			continue
		}
		// the iterator's reverse look-up over all methods at once agrees with Reverse asked method by method (each method with
		// its own route's trailing-slash setting)
		if d := rt.IterReverseDiff(r.F, q.Host, rp); d != "" {
			return fmt.Errorf("options=%+v routes=%v: %s", c.G, r.Routes, d)
		}
		host := ref.StripHost(q.Host)
		want, ok := ref.LookupAll(pats, host, rp)
		if !ok {
			if count {
				stats.Excluded("catch-all value would start with '/' (undocumented for infix catch-alls)")
			}
			continue
		}
		wantPat := ""
		if want.Route >= 0 {
			wantPat = pats[want.Route]
		}
		desc := fmt.Sprintf("global=%+v routes(%s)=%q request host=%q target=%q (routing path %q): the slash-adjusted reference selects %q tsr=%v params=%v; ",
			c.G, q.Method, pats, q.Host, q.Target, rp, wantPat, want.Tsr, want.Params)
		target := rp
		if want.Tsr {
			target = adjust(rp)
		}
		// 1. detection: Lookup and Reverse report exactly that route and flag
		lq := rt.Req{Method: q.Method, Host: q.Host, Path: rp}
		got := rt.DoLookup(r.F, lq)
		if got.Pattern != wantPat || got.Tsr != want.Tsr {
			return fmt.Errorf("%sLookup returned %v", desc, got)
		}
		if wantPat != "" {
			if msg := ref.CheckParams(wantPat, got.Params, host, target); msg != "" {
				return fmt.Errorf("%sLookup returned params %v: %s", desc, got.Params, msg)
			}
			if ref.UniqueSplit(wantPat) && !sameParams(got.Params, want.Params) {
				return fmt.Errorf("%sLookup returned params %v", desc, got.Params)
			}
		}
		if rv := rt.DoReverse(r.F, lq); rv.Pattern != wantPat || rv.Tsr != want.Tsr {
			return fmt.Errorf("%sReverse returned %v", desc, rv)
		}
		// 2. dispatch
		out, err := serve(r, q)
		if err != nil {
			return fmt.Errorf("%s%v", desc, err)
		}
		spec, _ := r.Spec(q.Method, wantPat)
		mode := rt.EffectiveTS(c.G, spec)
		clean := ref.CleanPath(rp) == rp
		expect := "noroute"
		switch {
		case wantPat != "" && !want.Tsr:
			expect = "route"
		case want.Tsr && q.Method != http.MethodConnect && req.URL.Path != "/" && mode == rt.TSIgnore:
			expect = "route"
		case want.Tsr && q.Method != http.MethodConnect && req.URL.Path != "/" && mode == rt.TSRedirect && clean:
			expect = "redirect"
		}
		if out.Kind != expect {
			return fmt.Errorf("%sselected route mode=%d clean=%v: expected the %s handler, ServeHTTP ran %s (pattern %q, status %d)", desc, mode, clean, expect, out.Kind, out.Pattern, out.Code)
		}
		switch expect {
		case "route":
			if out.Pattern != wantPat {
				return fmt.Errorf("%sServeHTTP ran the handler of %q", desc, out.Pattern)
			}
			if msg := ref.CheckParams(wantPat, out.Params, host, target); msg != "" {
				return fmt.Errorf("%shandler saw params %v: %s", desc, out.Params, msg)
			}
			if !sameParams(out.Params, got.Params) {
				return fmt.Errorf("%shandler saw params %v but Lookup reported %v", desc, out.Params, got.Params)
			}
		case "redirect":
			wantCode := http.StatusPermanentRedirect
			if q.Method == http.MethodGet {
				wantCode = http.StatusMovedPermanently
			}
			if out.Code != wantCode {
				return fmt.Errorf("%sredirect status %d, want %d", desc, out.Code, wantCode)
			}
			loc, err := url.Parse(out.Location)
			if err != nil {
				return fmt.Errorf("%sLocation %q does not parse: %v", desc, out.Location, err)
			}
			base := &url.URL{Scheme: "http", Host: "origin.test", Path: req.URL.Path, RawPath: req.URL.RawPath, RawQuery: req.URL.RawQuery}
			res := base.ResolveReference(loc)
			if res.Scheme != "http" || res.Host != "origin.test" {
				return fmt.Errorf("%sLocation %q leaves the origin: resolves to %s", desc, out.Location, res)
			}
			if canon(res.EscapedPath()) != canon(adjust(req.URL.EscapedPath())) {
				return fmt.Errorf("%sLocation %q resolves to path %q, want %q", desc, out.Location, res.EscapedPath(), adjust(req.URL.EscapedPath()))
			}
			if rawHigh(res.RawQuery) != rawHigh(req.URL.RawQuery) || res.Fragment != "" {
				return fmt.Errorf("%sLocation %q resolves to query %q fragment %q, want query %q", desc, out.Location, res.RawQuery, res.Fragment, req.URL.RawQuery)
			}
			if out.Pattern != "" || len(out.Params) != 0 {
				return fmt.Errorf("%sredirect handler saw pattern %q params %v", desc, out.Pattern, out.Params)
			}
		}
		// 3. metamorphic: routes matching neither the path nor its adjusted form change nothing
		if rx != nil {
			irrelevant := true
			for _, e := range c.Extra {
				if e.Method != q.Method {
					continue
				}
				if _, ok := rx.Spec(e.Method, e.Pattern); !ok {
					continue
				}
				for _, mode := range []int{ref.SlashNever, ref.SlashSuffixOnly, ref.SlashAlways} {
					one := []string{e.Pattern}
					if ref.Lookup(one, host, rp, mode).Route >= 0 || ref.Lookup(one, "", rp, mode).Route >= 0 {
						irrelevant = false
					}
				}
			}
			xp := rx.Patterns(q.Method)
			if irrelevant && !rt.ExcludedE(rp, xp) {
				if _, ok := ref.LookupAll(xp, host, rp); ok {
					out2, err := serve(rx, q)
					if err != nil {
						return fmt.Errorf("%swith extra routes %v: %v", desc, c.Extra, err)
					}
					if !reflect.DeepEqual(out, out2) {
						return fmt.Errorf("%soutcome %+v changed to %+v after adding routes %v that match neither the path nor its slash-adjusted form", desc, out, out2, c.Extra)
					}
					if count {
						stats.Class("metamorphic:irrelevant-routes-added")
					}
				}
			}
		}
		if count {
			classify(c, pats, q, rp, want, expect, req)
		}
	}
	return nil
}

func classify(c *Case, pats []string, q Req, rp string, want ref.Result, expect string, req *http.Request) {
	stats.Class("dispatch:" + expect)
	if !want.Tsr {
		return
	}
	if strings.HasSuffix(rp, "/") {
		stats.Class("tsr:remove-slash")
	} else {
		stats.Class("tsr:add-slash")
	}
	wp := pats[want.Route]
	if strings.HasSuffix(strings.TrimSuffix(wp, "/"), "}") {
		stats.Class("tsr:wildcard-before-final-slash")
	}
	if want.HostMode {
		stats.Class("tsr:hostname-mode")
	}
	if req.URL.RawPath != "" || req.URL.EscapedPath() != req.URL.Path {
		stats.Class("tsr:encoded-path")
	}
	if req.URL.RawQuery != "" {
		stats.Class("tsr:with-query")
	}
	stats.Class("tsr:method-" + q.Method)
	if len(pats) >= 2 {
		sp := append([]string(nil), pats...)
		sort.Strings(sp)
		stats.NonTrivial(fmt.Sprintf("%+v|%s|%s|%s|%s", c.G, q.Method, strings.Join(sp, " "), q.Host, q.Target))
	}
}

var reserved = []string{"a:b", "https:evil.com", "a?b", "a#b", "a%b", "a b", "é", "a%2Fb", "a;b", "a=b&c", "a+b", "%41", "a.b", "a%2F", "%2Fa", "%2E%2E", "%2e", "a%2F%2Fb"}
var queries = []string{"", "", "?q=1", "?a=%2F&b=c%20d", "?", "?x=y%23z&u=https://h/p?q",
	// bytes beyond ASCII sent as they are: well-formed UTF-8, Latin-1, a lone continuation byte, a truncated sequence. A header
	// value cannot carry them raw, so the Location may percent-encode each BYTE; the query it resolves to is the same bytes.
	"?u=h\xc3\xa9llo&x=1", "?name=caf\xe9&x=1", "?k=\xa0", "?q=\xe2\x82&r=2"}

// rawHigh decodes the percent-escapes of bytes >= 0x80 (and only those), so that a query and its header-safe spelling compare
// equal byte for byte while every other escape still has to be kept as it was.
func rawHigh(q string) string {
	var sb strings.Builder
	for i := 0; i < len(q); i++ {
		if q[i] == '%' && i+2 < len(q) {
			if v, err := strconv.ParseUint(q[i+1:i+3], 16, 8); err == nil && v >= 0x80 {
				sb.WriteByte(byte(v))
				i += 2
				continue
			}
		}
		sb.WriteByte(q[i])
	}
	return sb.String()
}

var methods = []string{"GET", "GET", "GET", "POST", "CONNECT", "FOO", "HEAD"}

func escapeSeg(s string) string {
	if strings.Contains(s, "%2F") || strings.Contains(s, "%2E") || strings.Contains(s, "%2e") || s == "%41" { // already an escaped form: keeps RawPath different from Path
		return s
	}
	return url.PathEscape(s)
}

func genCase(t *rapid.T) *Case {
	c := &Case{}
	c.G.TS = gen.Pick(t, []int{rt.TSNone, rt.TSIgnore, rt.TSRedirect, rt.TSRedirect}, "globalTS")
	c.G.OneTxn = gen.Chance(t, 1, 4, "onetxn")
	if gen.Chance(t, 1, 3, "competition") {
		// several slash-adjusted candidates of different priority for the same request
		pats, paths := gen.Competition(t)
		for _, p := range pats {
			ts := gen.Pick(t, []int{0, 0, 0, rt.TSIgnore, rt.TSRedirect, rt.TSOff}, "routeTS")
			c.Routes = append(c.Routes, rt.RouteSpec{Method: "GET", Pattern: p, TS: ts})
		}
		for _, p := range paths {
			c.Reqs = append(c.Reqs, Req{Method: "GET", Target: p + gen.Pick(t, queries, "query")})
		}
		return c
	}
	n := gen.IntR(t, 1, 8, "nroutes")
	hostW := gen.Pick(t, []int{2, 1000, 1000}, "hostweight")
	multi := gen.IntR(t, 0, 2, "multi") == 0
	var pool []string
	for i := 0; i < n; i++ {
		p := gen.Pattern(t, pool, hostW, false)
		pool = append(pool, p)
		m := "GET"
		if multi {
			m = gen.Pick(t, methods, "method")
		}
		ts := gen.Pick(t, []int{0, 0, 0, rt.TSIgnore, rt.TSRedirect, rt.TSOff}, "routeTS")
		c.Routes = append(c.Routes, rt.RouteSpec{Method: m, Pattern: p, TS: ts})
	}
	if gen.IntR(t, 0, 2, "extra") == 0 {
		ne := gen.IntR(t, 1, 3, "nextra")
		for i := 0; i < ne; i++ {
			p := gen.Pattern(t, pool, hostW, false)
			m := "GET"
			if multi {
				m = gen.Pick(t, methods, "xmethod")
			}
			c.Extra = append(c.Extra, rt.RouteSpec{Method: m, Pattern: p})
		}
	}
	nreq := gen.IntR(t, 1, 6, "nreq")
	for i := 0; i < nreq; i++ {
		src := gen.Pick(t, c.Routes, "src")
		if !ref.ValidPattern(src.Pattern, 1<<16, 1<<16) {
			continue
		}
		host, path := gen.Instantiate(t, src.Pattern)
		// always consider the slash-toggled form: that is what this property is about
		if rapid.Bool().Draw(t, "toggle") {
			path = adjust(path)
		} else {
			path = gen.MutatePath(t, path)
		}
		if strings.Contains(path, "//") {
			continue
		}
		segs := strings.Split(path, "/")
		if gen.IntR(t, 0, 2, "reserved") == 0 {
			// replace a wildcard-ish position (any non-empty segment) by a segment with reserved characters
			k := gen.IntR(t, 1, len(segs)-1, "which")
			if segs[k] != "" {
				segs[k] = gen.Pick(t, reserved, "rsv")
			}
		}
		for k := range segs {
			segs[k] = escapeSeg(segs[k])
		}
		target := strings.Join(segs, "/") + gen.Pick(t, queries, "query")
		if gen.IntR(t, 0, 3, "hostmut") == 0 {
			host = gen.MutateHost(t, host)
		}
		m := src.Method
		if gen.IntR(t, 0, 5, "othermethod") == 0 {
			m = gen.Pick(t, methods, "reqmethod")
		}
		c.Reqs = append(c.Reqs, Req{Method: m, Host: host, Target: target})
	}
	return c
}

func TestRandom(t *testing.T) {
	rapid.Check(t, func(t *rapid.T) {
		c := genCase(t)
		defer stats.Guard("tsr", func() any { return c })()
		stats.EvalN(len(c.Reqs))
		stats.Sample(c)
		if err := checkCase(c, true); err != nil {
			stats.Fail("tsr", c, "%v", err)
			t.Fatalf("%v", err)
		}
	})
}

// ---- exhaustive: every subset (size <= k) of a small pattern pool x every short path x TS modes ----

func smallPool(maxSegs int) []string {
	toks := []string{"a", "ab", "{p%d}", "*{c%d}", "a{p%d}"}
	if env := os.Getenv("C08_EXH_TOKENS"); env != "" {
		toks = strings.Split(env, ",")
	}
	var out []string
	var rec func(prefix string, depth int, prevCatch bool)
	rec = func(prefix string, depth int, prevCatch bool) {
		if depth > 0 {
			out = append(out, prefix, prefix+"/")
		}
		if depth == maxSegs {
			return
		}
		for _, tk := range toks {
			if prevCatch && strings.HasPrefix(tk, "*") {
				continue
			}
			s := tk
			if strings.Contains(tk, "%d") {
				s = fmt.Sprintf(tk, depth)
			}
			rec(prefix+"/"+s, depth+1, strings.Contains(tk, "*"))
		}
	}
	rec("", 0, false)
	return append([]string{"/"}, out...)
}

func allPaths(maxLen int) []string {
	var out []string
	var rec func(p string)
	rec = func(p string) {
		out = append(out, p)
		if len(p) == maxLen {
			return
		}
		for _, c := range pathAlphabet() {
			if c == "/" && strings.HasSuffix(p, "/") {
				continue
			}
			rec(p + c)
		}
	}
	rec("/")
	return out
}

func cmpOr(a, b string) string {
	if a != "" {
		return a
	}
	return b
}

func pathAlphabet() []string {
	if env := os.Getenv("C08_EXH_PATHALPHA"); env != "" {
		return strings.Split(env, ",")
	}
	return []string{"/", "a", "b"}
}

func TestExhaustive(t *testing.T) {
	segs := stats.EnvInt("C08_EXH_SEGS", 2)
	size := stats.EnvInt("C08_EXH_SUBSET", 2)
	plen := stats.EnvInt("C08_EXH_PATHLEN", 6)
	shard, shards := stats.EnvInt("VERIF_SHARD", 0), stats.EnvInt("VERIF_SHARDS", 1)
	pool := smallPool(segs)
	paths := allPaths(plen)
	stats.Note("exhaustive"+os.Getenv("C08_EXH_NAME"), fmt.Sprintf("all subsets of size <= %d of the %d patterns over tokens %v with <= %d segments, x all %d paths over %v up to length %d, global mode cycling over none/ignore/redirect", size, len(pool), strings.Split(cmpOr(os.Getenv("C08_EXH_TOKENS"), "a,ab,{p},*{c},a{p}"), ","), segs, len(paths), pathAlphabet(), plen))
	reqs := make([]Req, len(paths))
	for i, p := range paths {
		reqs[i] = Req{Method: "GET", Target: p}
	}
	n := 0
	var rec func(start int, cur []rt.RouteSpec)
	rec = func(start int, cur []rt.RouteSpec) {
		if stats.Failed() {
			return
		}
		if len(cur) > 0 {
			n++
			if n%shards == shard {
				c := &Case{G: rt.Global{TS: n % 3}, Routes: cur, Reqs: reqs}
				stats.EvalN(len(reqs))
				if n%5000 == 1 {
					stats.Sample(&Case{G: c.G, Routes: cur, Reqs: reqs[:3]})
				}
				if err := checkCase(c, true); err != nil {
					for _, q := range reqs {
						one := &Case{G: c.G, Routes: append([]rt.RouteSpec(nil), cur...), Reqs: []Req{q}}
						if e := checkCase(one, false); e != nil {
							stats.Fail("tsr", one, "%v", e)
							t.Errorf("%v", e)
							return
						}
					}
					stats.Fail("tsr", c, "%v", err)
					t.Errorf("%v", err)
					return
				}
			}
		}
		if len(cur) == size {
			return
		}
		for i := start; i < len(pool); i++ {
			rec(i+1, append(cur[:len(cur):len(cur)], rt.RouteSpec{Method: "GET", Pattern: pool[i]}))
		}
	}
	rec(0, nil)
}

// ---------------------------------------------------------------- requests without any path

// EmptyCase: a request whose URL path is the empty string (absolute-form target "GET http://host HTTP/1.1", authority-form
// CONNECT) against a router whose only candidates are "/" routes: it differs from them by the trailing slash only.
type EmptyCase struct {
	GlobalTS int    `json:"global_ts"`
	RouteTS  int    `json:"route_ts"`
	Method   string `json:"method"`
	Hosted   bool   `json:"hosted"` // the route is "h.example/" instead of "/"
	Extra    bool   `json:"extra"`  // further routes below "/"
}

func checkEmpty(c *EmptyCase) error {
	g := rt.Global{TS: c.GlobalTS}
	pat := "/"
	if c.Hosted {
		pat = "h.example/"
	}
	specs := []rt.RouteSpec{{Method: c.Method, Pattern: pat, TS: c.RouteTS}}
	if c.Extra {
		specs = append(specs, rt.RouteSpec{Method: c.Method, Pattern: pat + "a"}, rt.RouteSpec{Method: c.Method, Pattern: pat + "{p}/b"})
	}
	r, err := rt.New(g, specs)
	if err != nil || len(r.Routes) != len(specs) {
		return fmt.Errorf("%+v: registration failed: %v", *c, err)
	}
	q := rt.Req{Method: c.Method, Host: "h.example", Path: ""}
	desc := fmt.Sprintf("%+v: request %s host=%q with an empty path, only candidate %q: ", *c, c.Method, q.Host, pat)
	mode := rt.EffectiveTS(g, specs[0])
	sv := r.ServeReq(q)
	if len(sv.Hits) != 1 {
		return fmt.Errorf("%sServeHTTP ran %d handlers", desc, len(sv.Hits))
	}
	h := sv.Hits[0]
	if mode == rt.TSIgnore && c.Method != http.MethodConnect {
		if h.Kind != "route" || h.Pattern != pat {
			return fmt.Errorf("%sthe route ignores trailing slashes, want it served; %s handler ran (status %d)", desc, h.Kind, sv.Code)
		}
	} else if h.Kind != "noroute" {
		// no option: unmatched; redirect: the empty path is not in canonical form, so no redirect either; CONNECT: never adjusted
		return fmt.Errorf("%swant the no-route handler (mode %d); %s handler ran (status %d, Location %q)", desc, mode, h.Kind, sv.Code, sv.Header.Get("Location"))
	}
	// every look-up entry point reports the same: the route, reachable by adding a slash
	rtx := r.F.Txn(false)
	defer rtx.Abort()
	for name, o := range map[string]rt.Obs{"Router.Lookup": rt.DoLookup(r.F, q), "Txn.Lookup": rt.DoLookup(rtx, q)} {
		if o.Pattern != pat || !o.Tsr {
			return fmt.Errorf("%s%s returned %v, want %q with tsr=true", desc, name, o, pat)
		}
	}
	return nil
}

func TestEmptyPath(t *testing.T) {
	n := 0
	for _, gts := range []int{rt.TSNone, rt.TSIgnore, rt.TSRedirect} {
		for _, rts := range []int{0, rt.TSIgnore, rt.TSRedirect, rt.TSOff} {
			for _, m := range []string{"GET", "POST", "CONNECT", "FOO"} {
				for _, hosted := range []bool{false, true} {
					for _, extra := range []bool{false, true} {
						c := &EmptyCase{GlobalTS: gts, RouteTS: rts, Method: m, Hosted: hosted, Extra: extra}
						stats.Eval()
						stats.NonTrivial(fmt.Sprintf("empty|%+v", *c))
						stats.Class("request-with-an-empty-path")
						if n++; n%37 == 1 {
							stats.Sample(c)
						}
						if err := checkEmpty(c); err != nil {
							stats.Fail("empty-path", c, "%v", err)
							t.Fatalf("%v", err)
						}
					}
				}
			}
		}
	}
}
