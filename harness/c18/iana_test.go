package c18

// Independent table of addresses that are NOT plain globally routable unicast.
//
// Written from the IANA IPv4 and IPv6 Special-Purpose Address Registries, the IPv4/IPv6 multicast blocks, the
// reserved class-E block, and - for IPv6 - everything outside the global unicast block 2000::/3 (reserved by
// IETF / unallocated in the IANA IPv6 address space registry). It deliberately errs on the side of listing MORE
// blocks (also the special blocks that the registry flags as globally reachable, e.g. the AS112 and AMT blocks):
// the audit only claims something about addresses OUTSIDE every block listed here, so a superfluous row costs a
// few claims and can never raise a false alarm. Nothing here is copied from fox.

import (
	"fmt"
	"net/netip"
)

type block struct {
	pfx  netip.Prefix
	what string
}

var specialV4 = []string{
	"0.0.0.0/8 this-network (RFC 791, RFC 1122)",
	"10.0.0.0/8 private-use (RFC 1918)",
	"100.64.0.0/10 shared address space (RFC 6598)",
	"127.0.0.0/8 loopback (RFC 1122)",
	"169.254.0.0/16 link-local (RFC 3927)",
	"172.16.0.0/12 private-use (RFC 1918)",
	"192.0.0.0/24 IETF protocol assignments (RFC 6890)",
	"192.0.2.0/24 TEST-NET-1 (RFC 5737)",
	"192.31.196.0/24 AS112-v4 (RFC 7535)",
	"192.52.193.0/24 AMT (RFC 7450)",
	"192.88.99.0/24 deprecated 6to4 relay anycast (RFC 7526)",
	"192.168.0.0/16 private-use (RFC 1918)",
	"192.175.48.0/24 direct delegation AS112 (RFC 7534)",
	"198.18.0.0/15 benchmarking (RFC 2544)",
	"198.51.100.0/24 TEST-NET-2 (RFC 5737)",
	"203.0.113.0/24 TEST-NET-3 (RFC 5737)",
	"224.0.0.0/4 multicast (RFC 5771)",
	"240.0.0.0/4 reserved (RFC 1112)",
	"255.255.255.255/32 limited broadcast (RFC 919)",
}

var specialV6 = []string{
	// everything that is not global unicast 2000::/3
	"::/3 reserved by IETF (holds ::/128, ::1/128, ::ffff:0:0/96, 64:ff9b::/96, 64:ff9b:1::/48, 100::/64, 100:0:0:1::/64)",
	"4000::/2 reserved by IETF (holds 5f00::/16 SRv6 SIDs)",
	"8000::/1 reserved by IETF (holds fc00::/7 unique-local, fe80::/10 link-local, fec0::/10 site-local, ff00::/8 multicast)",
	// the registry rows, listed again on their own so that typo neighbours are derived from them
	"::/128 unspecified (RFC 4291)",
	"::1/128 loopback (RFC 4291)",
	"::ffff:0:0/96 IPv4-mapped (RFC 4291)",
	"64:ff9b::/96 IPv4-IPv6 translation (RFC 6052)",
	"64:ff9b:1::/48 IPv4-IPv6 translation (RFC 8215)",
	"100::/64 discard-only (RFC 6666)",
	"100:0:0:1::/64 dummy prefix (RFC 9780)",
	"2001::/23 IETF protocol assignments (RFC 2928; holds TEREDO 2001::/32, 2001:1::1-3, 2001:2::/48, 2001:3::/32, 2001:4:112::/48, 2001:10::/28, 2001:20::/28, 2001:30::/28)",
	"2001::/32 TEREDO (RFC 4380)",
	"2001:2::/48 benchmarking (RFC 5180)",
	"2001:3::/32 AMT (RFC 7450)",
	"2001:4:112::/48 AS112-v6 (RFC 7535)",
	"2001:10::/28 deprecated ORCHID (RFC 4843)",
	"2001:20::/28 ORCHIDv2 (RFC 7343)",
	"2001:30::/28 drone remote ID (RFC 9374)",
	"2001:db8::/32 documentation (RFC 3849)",
	"2002::/16 6to4 (RFC 3056)",
	"2620:4f:8000::/48 direct delegation AS112 (RFC 7534)",
	"3fff::/20 documentation (RFC 9637)",
	"5f00::/16 SRv6 SIDs (RFC 9602)",
	"fc00::/7 unique-local (RFC 4193)",
	"fe80::/10 link-local unicast (RFC 4291)",
	"fec0::/10 deprecated site-local (RFC 3879)",
	"ff00::/8 multicast (RFC 4291)",
}

var specialBlocks = func() []block {
	var out []block
	for _, rows := range [][]string{specialV4, specialV6} {
		for _, r := range rows {
			var p, what string
			for i := 0; i < len(r); i++ {
				if r[i] == ' ' {
					p, what = r[:i], r[i+1:]
					break
				}
			}
			pfx, err := netip.ParsePrefix(p)
			if err != nil || pfx.Masked() != pfx {
				panic(fmt.Sprintf("c18: bad table row %q: %v", r, err))
			}
			out = append(out, block{pfx, what})
		}
	}
	return out
}()

// special reports the first table row that holds a (IPv4-mapped IPv6 addresses are judged as the IPv4 address,
// which is how every net.IP based consumer sees them).
func special(a netip.Addr) (string, bool) {
	a = a.Unmap().WithZone("")
	for _, b := range specialBlocks {
		if b.pfx.Contains(a) {
			return b.pfx.String() + " " + b.what, true
		}
	}
	return "", false
}

// ---- address arithmetic ----

func addrBytes(a netip.Addr) []byte {
	if a.Is4() {
		b := a.As4()
		return b[:]
	}
	b := a.As16()
	return b[:]
}

func bytesAddr(b []byte) netip.Addr {
	a, _ := netip.AddrFromSlice(b)
	return a
}

// first and last address of a prefix
func blockEnds(p netip.Prefix) (netip.Addr, netip.Addr) {
	p = p.Masked()
	lo := addrBytes(p.Addr())
	hi := append([]byte(nil), lo...)
	for i := p.Bits(); i < len(hi)*8; i++ {
		hi[i/8] |= 1 << (7 - uint(i%8))
	}
	return bytesAddr(lo), bytesAddr(hi)
}

// step returns a+1 or a-1; ok is false on wrap-around.
func step(a netip.Addr, up bool) (netip.Addr, bool) {
	b := append([]byte(nil), addrBytes(a)...)
	for i := len(b) - 1; i >= 0; i-- {
		if up {
			b[i]++
			if b[i] != 0 {
				return bytesAddr(b), true
			}
		} else {
			b[i]--
			if b[i] != 0xff {
				return bytesAddr(b), true
			}
		}
	}
	return a, false
}

// inside builds an address of the prefix from host bits taken from rnd (a function returning random bytes).
func inside(p netip.Prefix, rnd func() byte) netip.Addr {
	p = p.Masked()
	b := append([]byte(nil), addrBytes(p.Addr())...)
	for i := range b {
		r := rnd()
		for bit := 0; bit < 8; bit++ {
			if i*8+bit >= p.Bits() && r&(1<<(7-uint(bit))) != 0 {
				b[i] |= 1 << (7 - uint(bit))
			}
		}
	}
	return bytesAddr(b)
}

// typoNeighbours returns the blocks obtained by changing exactly one digit (decimal for IPv4, hexadecimal for
// IPv6) of the textual base address of p, keeping the prefix length - the kind of slip that turns 198.18.0.0/15
// into 192.18.0.0/15. Results whose text does not parse are dropped; the result is masked.
func typoNeighbours(p netip.Prefix) []netip.Prefix {
	base := p.Addr().String()
	digits := "0123456789"
	if p.Addr().Is6() {
		digits = "0123456789abcdef"
	}
	seen := map[netip.Prefix]bool{p.Masked(): true}
	var out []netip.Prefix
	for i := 0; i < len(base); i++ {
		c := base[i]
		if c == '.' || c == ':' {
			continue
		}
		for j := 0; j < len(digits); j++ {
			if digits[j] == c {
				continue
			}
			s := base[:i] + string(digits[j]) + base[i+1:]
			a, err := netip.ParseAddr(s)
			if err != nil || a.Is4() != p.Addr().Is4() {
				continue
			}
			np := netip.PrefixFrom(a, p.Bits()).Masked()
			if !seen[np] {
				seen[np] = true
				out = append(out, np)
			}
		}
	}
	return out
}
