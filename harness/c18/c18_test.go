// C18 — client-IP resolvers return exactly the designated, unspoofable entry.
//
// Ground truth is known by construction: every header entry is generated as (kind, canonical address, text), the
// oracle (expect) applies the documented strategy of each resolver to the typed entry list with plain slice
// operations and never parses a header itself.
package c18

import (
	"encoding/json"
	"fmt"
	"net"
	"net/http"
	"net/http/httptest"
	"net/netip"
	"os"
	"strings"
	"testing"

	"github.com/tigerwill90/fox"
	"github.com/tigerwill90/fox/clientip"
	"pgregory.net/rapid"

	"verif/gen"
	"verif/stats"
)

func TestMain(m *testing.M) {
	stats.Init("C18")
	stats.RegisterReplay("resolve", func(raw json.RawMessage) error {
		var c Case
		if err := json.Unmarshal(raw, &c); err != nil {
			return err
		}
		return checkCase(&c, false)
	})
	stats.RegisterReplay("audit", func(raw json.RawMessage) error {
		var c AuditCase
		if err := json.Unmarshal(raw, &c); err != nil {
			return err
		}
		return checkAudit(&c, false)
	})
	stats.RegisterReplay("raw-prefix", func(raw json.RawMessage) error {
		var c RawCase
		if err := json.Unmarshal(raw, &c); err != nil {
			return err
		}
		return fuzzOne(string(c.Data), string(c.Prefix), c.Sel)
	})
	if err := selfCheckPools(); err != nil {
		fmt.Println("c18: generator pools inconsistent with the special-purpose table:", err)
		os.Exit(2)
	}
	os.Exit(stats.Finish(m.Run()))
}

func TestReplay(t *testing.T) { stats.RunReplays(t) }

// ---------------------------------------------------------------------------------------------------------------
// case
// ---------------------------------------------------------------------------------------------------------------

const (
	kPublic    = "public"
	kPrivate   = "private"   // 10/8, 172.16/12, 192.168/16, fc00::/7 and the reserved blocks the private-net option covers
	kLoopback  = "loopback"  // 127/8, ::1
	kLinkLocal = "linklocal" // 169.254/16, fe80::/10
	kUnspec    = "unspec"    // 0.0.0.0, :: : documented as never a valid client address
	kJunk      = "junk"      // not an address at all
)

// Entry is one list element (or one single-IP header instance, or the remote address) with its ground truth.
type Entry struct {
	Kind string  `json:"kind"`
	Addr string  `json:"addr,omitempty"` // canonical address without zone; IPv4 for IPv4-mapped renderings
	Zone string  `json:"zone,omitempty"`
	Text stats.B `json:"text"`
	Rend string  `json:"rend,omitempty"` // rendering tags, '+' separated (histogram only)
}

func (e Entry) valid() bool { return e.Kind != kJunk && e.Kind != kUnspec }

// Hdr is one request header: every line is a separate header instance holding a comma separated entry list.
type Hdr struct {
	Name  string    `json:"name"` // canonical
	Lines [][]Entry `json:"lines"`
}

// Opt is one TrustX/ExcludeX option call, in call order.
type Opt struct {
	Cat string `json:"cat"` // loopback | linklocal | private
	On  bool   `json:"on"`
}

const (
	rRemote  = "remote-addr"
	rSingle  = "single-header"
	rLeft    = "leftmost-non-private"
	rRightNP = "rightmost-non-private"
	rCount   = "rightmost-trusted-count"
	rRange   = "rightmost-trusted-range"
	rChain   = "chain"
)

type Spec struct {
	Kind     string   `json:"kind"`
	Header   string   `json:"header,omitempty"`      // canonical name of the header read
	CtorName string   `json:"ctor_name,omitempty"`   // single-header: the spelling given to the constructor
	Count    int      `json:"count,omitempty"`       // trusted count
	Limit    int      `json:"limit,omitempty"`       // leftmost
	Opts     []Opt    `json:"opts,omitempty"`        // leftmost / rightmost-non-private
	Ranges   []string `json:"ranges,omitempty"`      // trusted range: addresses and CIDR blocks
	RangeErr bool     `json:"range_error,omitempty"` // trusted range: the range provider fails
	// NetForm: how the range provider spells its IPv4 networks as net.IPNet values, all of which net.IPNet.Contains treats alike:
	// 0 = as AddressesAndRangesToIPNets returns them, 1 = 16-byte address with a 4-byte mask (net.IPv4 + net.CIDRMask(n, 32)),
	// 2 = 4-byte address with a 16-byte mask.
	NetForm int `json:"net_form,omitempty"`
	Subs     []Spec   `json:"subs,omitempty"`        // chain
}

type Case struct {
	Spec   Spec   `json:"spec"`
	Scope  string `json:"scope"` // "global": router option; "route": route option overriding a decoy global resolver
	Hdrs   []Hdr  `json:"headers"`
	Remote Entry  `json:"remote"`
	// metamorphic part (rightmost strategies only): attacker controlled material placed LEFT of everything else
	PrefixLines []stats.B `json:"prefix_lines,omitempty"`  // extra header instances before the first one
	Inline      *stats.B  `json:"prefix_inline,omitempty"` // text + "," put in front of the first instance
}

const (
	hXFF = "X-Forwarded-For"
	hFwd = "Forwarded"
)

func (c *Case) hdr(name string) *Hdr {
	for i := range c.Hdrs {
		if c.Hdrs[i].Name == name {
			return &c.Hdrs[i]
		}
	}
	return nil
}

func lineText(line []Entry) string {
	parts := make([]string, len(line))
	for i, e := range line {
		parts[i] = string(e.Text)
	}
	return strings.Join(parts, ",")
}

func (c *Case) httpHeader(withPrefix bool) http.Header {
	h := http.Header{}
	for _, hd := range c.Hdrs {
		var vals []string
		for _, l := range hd.Lines {
			vals = append(vals, lineText(l))
		}
		if withPrefix && hd.Name == c.Spec.Header {
			if c.Inline != nil && len(vals) > 0 {
				vals[0] = string(*c.Inline) + "," + vals[0]
			}
			var pre []string
			for _, p := range c.PrefixLines {
				pre = append(pre, string(p))
			}
			vals = append(pre, vals...)
		}
		if vals != nil {
			h[hd.Name] = vals
		}
	}
	return h
}

// ---------------------------------------------------------------------------------------------------------------
// oracle: the documented strategies as list operations over typed entries
// ---------------------------------------------------------------------------------------------------------------

type outcome struct {
	ok      bool
	addr    netip.Addr // unmapped, zone stripped
	zone    string
	why     string // for errors
	inside  bool   // the designated entry exists in the header as given: nothing to its left can matter
	entries []Entry
	sel     int // index into entries of the designated entry, -1 if none
	member  int // chain: index of the deciding member
	kind    string
}

func (o outcome) String() string {
	if !o.ok {
		return "an error (" + o.why + ")"
	}
	if o.zone != "" {
		return o.addr.String() + "%" + o.zone
	}
	return o.addr.String()
}

func same(a, b outcome) bool {
	return a.ok == b.ok && (!a.ok || (a.addr == b.addr && a.zone == b.zone))
}

func hit(e Entry, entries []Entry, i int, kind string) outcome {
	a, err := netip.ParseAddr(e.Addr)
	if err != nil {
		panic("c18: case holds a valid entry without canonical address: " + e.Addr)
	}
	return outcome{ok: true, addr: a.Unmap(), zone: e.Zone, inside: true, entries: entries, sel: i, kind: kind}
}

func miss(why string, inside bool, entries []Entry, i int, kind string) outcome {
	return outcome{why: why, inside: inside, entries: entries, sel: i, kind: kind}
}

// The documentation of the TrustX / ExcludeX options can be read in two ways when only some of them are given
// or some are given as false:
//
//	reading 0: as soon as one option is enabled the enabled categories REPLACE the default set; with nothing
//	           enabled the default (all three categories) applies.                     [what the constructor does]
//	reading 1: every option MODIFIES the default set: a category is in the set unless it was switched off.
//
// With no option, or with all three given and at least one enabled, both readings coincide.
func catSet(opts []Opt, reading int) map[string]bool {
	all := map[string]bool{kLoopback: true, kLinkLocal: true, kPrivate: true}
	if reading == 0 {
		on := map[string]bool{}
		for _, o := range opts {
			if o.On {
				on[o.Cat] = true
			}
		}
		if len(on) == 0 {
			return all
		}
		return on
	}
	for _, o := range opts {
		all[o.Cat] = o.On // the last call for a category wins under "modify" (only generated once per category)
	}
	return all
}

func rangesContain(ranges []string, a netip.Addr) bool {
	a = a.Unmap().WithZone("")
	for _, r := range ranges {
		if strings.Contains(r, "/") {
			p, err := netip.ParsePrefix(r)
			if err != nil {
				panic("c18: bad generated range " + r)
			}
			if p.Masked().Contains(a) {
				return true
			}
		} else {
			x, err := netip.ParseAddr(r)
			if err != nil {
				panic("c18: bad generated range " + r)
			}
			if x.Unmap() == a {
				return true
			}
		}
	}
	return false
}

func flatten(h *Hdr) []Entry {
	var out []Entry
	if h == nil {
		return nil
	}
	for _, l := range h.Lines {
		out = append(out, l...)
	}
	return out
}

func expect(s Spec, c *Case, reading int) outcome {
	switch s.Kind {
	case rRemote:
		if c.Remote.valid() {
			return hit(c.Remote, nil, -1, s.Kind)
		}
		return miss("the remote address is not a valid address", true, nil, -1, s.Kind)
	case rSingle:
		h := c.hdr(s.Header)
		if h == nil || len(h.Lines) == 0 {
			return miss("header absent", false, nil, -1, s.Kind)
		}
		last := h.Lines[len(h.Lines)-1]
		if len(last) == 1 && last[0].valid() {
			return hit(last[0], last, 0, s.Kind)
		}
		return miss("the last header instance is not a valid address", true, last, 0, s.Kind)
	case rChain:
		var o outcome
		for i, sub := range s.Subs {
			o = expect(sub, c, reading)
			o.member = i
			if o.ok {
				return o
			}
		}
		o = miss("every member failed", false, nil, -1, s.Kind)
		o.member = len(s.Subs)
		return o
	}
	es := flatten(c.hdr(s.Header))
	switch s.Kind {
	case rCount:
		if len(es) < s.Count {
			return miss("fewer entries than the trusted count", false, es, -1, s.Kind)
		}
		i := len(es) - s.Count
		if es[i].valid() {
			return hit(es[i], es, i, s.Kind)
		}
		return miss("the n-th entry from the right is not a valid address", true, es, i, s.Kind)
	case rRightNP:
		set := catSet(s.Opts, reading)
		for i := len(es) - 1; i >= 0; i-- {
			if es[i].valid() && !set[es[i].Kind] {
				return hit(es[i], es, i, s.Kind)
			}
		}
		return miss("no valid address outside the trusted ranges", false, es, -1, s.Kind)
	case rRange:
		if s.RangeErr {
			return miss("the trusted range provider failed", true, es, -1, s.Kind)
		}
		for i := len(es) - 1; i >= 0; i-- {
			if !es[i].valid() {
				return miss("the first entry from the right that is not trusted is not an address", true, es, i, s.Kind)
			}
			a := netip.MustParseAddr(es[i].Addr)
			if rangesContain(s.Ranges, a) {
				continue
			}
			return hit(es[i], es, i, s.Kind)
		}
		return miss("every entry is trusted (or there is none)", false, es, -1, s.Kind)
	case rLeft:
		set := catSet(s.Opts, reading)
		for i := 0; i < len(es) && i < s.Limit; i++ {
			if es[i].valid() && !set[es[i].Kind] {
				return hit(es[i], es, i, s.Kind)
			}
		}
		return miss("no valid non-excluded address among the first limit entries", false, es, -1, s.Kind)
	}
	panic("c18: unknown resolver kind " + s.Kind)
}

// ---------------------------------------------------------------------------------------------------------------
// system under test
// ---------------------------------------------------------------------------------------------------------------

func hdrKey(name string) (clientip.HeaderKey, error) {
	switch name {
	case hXFF:
		return clientip.XForwardedForKey, nil
	case hFwd:
		return clientip.ForwardedKey, nil
	}
	return 0, fmt.Errorf("c18: not a list header: %q", name)
}

func buildResolver(s Spec) (fox.ClientIPResolver, error) {
	switch s.Kind {
	case rRemote:
		return clientip.NewRemoteAddr(), nil
	case rSingle:
		return clientip.NewSingleIPHeader(s.CtorName)
	case rChain:
		var subs []fox.ClientIPResolver
		for _, x := range s.Subs {
			r, err := buildResolver(x)
			if err != nil {
				return nil, err
			}
			subs = append(subs, r)
		}
		return clientip.NewChain(subs...), nil
	}
	key, err := hdrKey(s.Header)
	if err != nil {
		return nil, err
	}
	switch s.Kind {
	case rCount:
		return clientip.NewRightmostTrustedCount(key, uint(s.Count))
	case rRightNP:
		var opts []clientip.TrustedRangeOption
		for _, o := range s.Opts {
			switch o.Cat {
			case kLoopback:
				opts = append(opts, clientip.TrustLoopback(o.On))
			case kLinkLocal:
				opts = append(opts, clientip.TrustLinkLocal(o.On))
			case kPrivate:
				opts = append(opts, clientip.TrustPrivateNet(o.On))
			}
		}
		return clientip.NewRightmostNonPrivate(key, opts...)
	case rLeft:
		var opts []clientip.BlacklistRangeOption
		for _, o := range s.Opts {
			switch o.Cat {
			case kLoopback:
				opts = append(opts, clientip.ExcludeLoopback(o.On))
			case kLinkLocal:
				opts = append(opts, clientip.ExcludeLinkLocal(o.On))
			case kPrivate:
				opts = append(opts, clientip.ExcludePrivateNet(o.On))
			}
		}
		return clientip.NewLeftmostNonPrivate(key, uint(s.Limit), opts...)
	case rRange:
		if s.RangeErr {
			return clientip.NewRightmostTrustedRange(key, clientip.TrustedIPRangeFunc(func() ([]net.IPNet, error) {
				return nil, fmt.Errorf("range provider down")
			}))
		}
		nets, err := clientip.AddressesAndRangesToIPNets(s.Ranges...)
		if err != nil {
			return nil, fmt.Errorf("AddressesAndRangesToIPNets(%q): %v", s.Ranges, err)
		}
		for i := range nets {
			ip4 := nets[i].IP.To4()
			ones, bits := nets[i].Mask.Size()
			if ip4 == nil || bits != 32 {
				continue
			}
			switch s.NetForm {
			case 1:
				nets[i] = net.IPNet{IP: ip4.To16(), Mask: net.CIDRMask(ones, 32)}
			case 2:
				nets[i] = net.IPNet{IP: ip4, Mask: net.CIDRMask(96+ones, 128)}
			}
		}
		return clientip.NewRightmostTrustedRange(key, clientip.TrustedIPRangeFunc(func() ([]net.IPNet, error) { return nets, nil }))
	}
	return nil, fmt.Errorf("c18: unknown resolver kind %q", s.Kind)
}

type obs struct {
	via string
	ip  *net.IPAddr
	err error
}

func (o obs) String() string {
	if o.err != nil {
		if o.ip != nil {
			return fmt.Sprintf("address %s AND error %q", o.ip, o.err)
		}
		return fmt.Sprintf("error %q", o.err)
	}
	if o.ip == nil {
		return "(nil, nil)"
	}
	return o.ip.String()
}

func newReq(h http.Header, remote string) *http.Request {
	req := httptest.NewRequest(http.MethodGet, "/x", nil)
	req.Header = h.Clone()
	if req.Header == nil {
		req.Header = http.Header{}
	}
	req.RemoteAddr = remote
	return req
}

// observe resolves the client address along every path a handler has: the resolver called with a real context,
// Context.ClientIP of a context without route (router-level resolver) and Context.ClientIP inside a route handler
// reached through ServeHTTP (router-level resolver, or route-level resolver overriding a decoy).
func observe(res fox.ClientIPResolver, scope string, h http.Header, remote string) ([]obs, error) {
	var out []obs
	_, tc := fox.NewTestContext(httptest.NewRecorder(), newReq(h, remote), fox.WithClientIPResolver(res))
	ip, err := res.ClientIP(tc)
	out = append(out, obs{"resolver.ClientIP(ctx)", ip, err})
	ip, err = tc.ClientIP()
	out = append(out, obs{"Context.ClientIP (no route)", ip, err})

	var f *fox.Router
	var ropts []fox.RouteOption
	if scope == "route" {
		decoy := fox.ClientIPResolverFunc(func(c fox.Context) (*net.IPAddr, error) {
			return &net.IPAddr{IP: net.ParseIP("203.0.113.77")}, nil
		})
		f, err = fox.New(fox.WithClientIPResolver(decoy))
		ropts = append(ropts, fox.WithClientIPResolver(res))
	} else {
		f, err = fox.New(fox.WithClientIPResolver(res))
	}
	if err != nil {
		return nil, fmt.Errorf("fox.New: %v", err)
	}
	ran := 0
	var hip *net.IPAddr
	var herr error
	if _, err = f.Handle(http.MethodGet, "/x", func(c fox.Context) {
		ran++
		hip, herr = c.ClientIP()
	}, ropts...); err != nil {
		return nil, fmt.Errorf("Handle: %v", err)
	}
	f.ServeHTTP(httptest.NewRecorder(), newReq(h, remote))
	if ran != 1 {
		return nil, fmt.Errorf("route handler ran %d times", ran)
	}
	out = append(out, obs{"Context.ClientIP in a route handler (" + scope + " resolver)", hip, herr})
	return out, nil
}

func agrees(o obs, w outcome) bool {
	if o.err != nil {
		return !w.ok
	}
	if o.ip == nil || !w.ok {
		return false
	}
	a, ok := netip.AddrFromSlice(o.ip.IP)
	if !ok {
		return false
	}
	return a.Unmap() == w.addr && o.ip.Zone == w.zone
}

func describe(c *Case, withPrefix bool) string {
	b, _ := json.Marshal(c.Spec)
	h := c.httpHeader(withPrefix)
	var sb strings.Builder
	fmt.Fprintf(&sb, "resolver %s (%s scope), remote address %q", b, c.Scope, string(c.Remote.Text))
	for _, hd := range c.Hdrs {
		if v, ok := h[hd.Name]; ok {
			fmt.Fprintf(&sb, ", %s: %q", hd.Name, v)
		}
	}
	return sb.String()
}

func isRightmost(kind string) bool { return kind == rCount || kind == rRightNP || kind == rRange }

func checkCase(c *Case, count bool) error {
	res, err := buildResolver(c.Spec)
	if err != nil {
		return fmt.Errorf("constructor rejected documented-valid parameters: %v", err)
	}
	w0, w1 := expect(c.Spec, c, 0), expect(c.Spec, c, 1)
	// a resolver is a long-lived value shared by every request of a router: what it was asked before - a request without any
	// header field, one from an unusable peer address, one whose header fields all name some other address - has no bearing on
	// what it designates for this request
	other := http.Header{}
	for k, vs := range c.httpHeader(false) {
		for range vs {
			if strings.EqualFold(k, "Forwarded") {
				other.Add(k, "for=9.9.9.9")
			} else {
				other.Add(k, "9.9.9.9")
			}
		}
	}
	for _, prior := range []struct {
		h      http.Header
		remote string
	}{{http.Header{}, "192.0.2.33:4711"}, {c.httpHeader(false), "not-an-address"}, {other, "198.51.100.4:80"}, {http.Header{}, "[2001:db8::7]:443"}} {
		_, _ = observe(res, c.Scope, prior.h, prior.remote)
	}
	got, err := observe(res, c.Scope, c.httpHeader(false), string(c.Remote.Text))
	if err != nil {
		return err
	}
	want := w0
	for _, o := range got {
		if o.err == nil && o.ip == nil {
			return fmt.Errorf("%s: %s returned (nil, nil)", describe(c, false), o.via)
		}
		switch {
		case agrees(o, w0):
		case agrees(o, w1):
			want = w1
		default:
			alt := ""
			if !same(w0, w1) {
				alt = fmt.Sprintf(" (or %s if the range options are read as modifying the default set)", w1)
			}
			return fmt.Errorf("%s: the documented strategy designates %s%s, %s returned %s", describe(c, false), w0, alt, o.via, o)
		}
	}
	for _, o := range got[1:] {
		if !agrees(o, want) {
			return fmt.Errorf("%s: %s returned %s but %s returned %s", describe(c, false), got[0].via, got[0], o.via, o)
		}
	}
	ambiguous := !same(w0, w1)
	// metamorphic relation: nothing placed to the left of the designated entry changes the result
	judgedPrefix := false
	if isRightmost(c.Spec.Kind) && (len(c.PrefixLines) > 0 || c.Inline != nil) {
		if want.inside {
			got2, err := observe(res, c.Scope, c.httpHeader(true), string(c.Remote.Text))
			if err != nil {
				return err
			}
			for _, o := range got2 {
				if !agrees(o, want) {
					return fmt.Errorf("%s: %s returned %s; without the material prepended to the left of the designated entry (prefix lines %q, inline prefix %v) the result was %s",
						describe(c, true), o.via, o, c.PrefixLines, inlineText(c), got[0])
				}
			}
			judgedPrefix = true
		}
	}
	if count {
		classify(c, want, ambiguous, judgedPrefix)
	}
	return nil
}

func inlineText(c *Case) string {
	if c.Inline == nil {
		return "none"
	}
	return fmt.Sprintf("%q", string(*c.Inline))
}

func trustedFor(s Spec, e Entry) bool {
	if !e.valid() {
		return false
	}
	switch s.Kind {
	case rRightNP, rLeft:
		return catSet(s.Opts, 0)[e.Kind] && catSet(s.Opts, 1)[e.Kind]
	case rRange:
		return rangesContain(s.Ranges, netip.MustParseAddr(e.Addr))
	case rCount:
		return e.Kind != kPublic
	}
	return false
}

// nonTrivial implements the rule of the plan entry on the deciding list-header resolver.
func nonTrivial(s Spec, w outcome) bool {
	if s.Kind == rChain {
		if w.member >= len(s.Subs) || s.Subs[w.member].Kind == rChain {
			return false
		}
		return nonTrivial(s.Subs[w.member], w)
	}
	if !w.ok || w.sel < 0 || len(w.entries) < 3 {
		return false
	}
	var side, other []Entry
	switch s.Kind {
	case rCount, rRightNP:
		side = w.entries[w.sel+1:]
		other = side
	case rRange: // an invalid entry cannot sit right of the designated one (it would be designated): look left for it
		side = w.entries[w.sel+1:]
		other = w.entries[:w.sel]
	case rLeft:
		side = w.entries[:w.sel]
		other = side
	default:
		return false
	}
	inv, tr := false, false
	for _, e := range other {
		if !e.valid() {
			inv = true
		}
	}
	for _, e := range side {
		if trustedFor(s, e) {
			tr = true
		}
	}
	return inv && tr
}

func classify(c *Case, w outcome, ambiguous, judgedPrefix bool) {
	s := c.Spec
	stats.Class("resolver:" + s.Kind)
	stats.Class("scope:" + c.Scope)
	if w.ok {
		stats.Class("result:address")
		if w.zone != "" {
			stats.Class("result:address-with-zone")
		}
	} else {
		stats.Class("result:error")
		stats.Class("error:" + w.kind + ":" + strings.ReplaceAll(w.why, " ", "-"))
	}
	d := s
	if s.Kind == rChain {
		if w.member >= len(s.Subs) {
			stats.Class(fmt.Sprintf("chain:all-%d-members-failed", len(s.Subs)))
		} else {
			stats.Class(fmt.Sprintf("chain:decided-by-member-%d-of-%d", w.member+1, len(s.Subs)))
			d = s.Subs[w.member]
			stats.Class("chain:decider:" + d.Kind)
			if d.Kind == rChain {
				stats.Class("chain:a-member-is-itself-a-chain")
				return
			}
		}
	}
	switch d.Header {
	case hXFF:
		stats.Class("header:x-forwarded-for")
	case hFwd:
		stats.Class("header:forwarded")
	case "":
	default:
		stats.Class("header:single-ip")
	}
	if h := c.hdr(d.Header); h != nil && d.Kind != rRemote {
		stats.Class(fmt.Sprintf("header-instances:%d", min(len(h.Lines), 3)))
		for _, e := range flatten(h) {
			stats.Class("entry:" + e.Kind)
			for _, tag := range strings.Split(e.Rend, "+") {
				if tag != "" {
					stats.Class("rend:" + tag)
				}
			}
		}
	}
	if d.Kind == rRightNP || d.Kind == rLeft {
		switch {
		case len(d.Opts) == 0:
			stats.Class("options:default")
		case ambiguous:
			stats.Class("options:two-readings-differ")
			stats.Excluded("range options given partially or all false: the two documented readings designate different results, either is accepted")
		default:
			stats.Class("options:explicit")
		}
	}
	if d.Kind == rRange {
		if d.RangeErr {
			stats.Class("ranges:provider-error")
		} else {
			stats.Class(fmt.Sprintf("ranges:%d", min(len(d.Ranges), 4)))
		}
	}
	if isRightmost(s.Kind) && (len(c.PrefixLines) > 0 || c.Inline != nil) {
		if judgedPrefix {
			stats.Class("prefix:judged")
			if !w.ok {
				stats.Class("prefix:judged-on-error")
			}
		} else {
			stats.Class("prefix:not-judged-no-designated-entry")
		}
	}
	if w.ok && w.sel >= 0 && isRightmost(d.Kind) {
		stats.Class(fmt.Sprintf("designated-from-right:%d", min(len(w.entries)-w.sel, 6)))
	}
	if nonTrivial(s, w) {
		stats.Class("nontrivial:" + d.Kind)
		sb, _ := json.Marshal(s)
		var parts []string
		if h := c.hdr(d.Header); h != nil {
			for _, l := range h.Lines {
				parts = append(parts, lineText(l))
			}
		}
		stats.NonTrivial(string(sb) + "|" + strings.Join(parts, "\n") + "|" + string(c.Remote.Text))
	}
}

// ---------------------------------------------------------------------------------------------------------------
// generator
// ---------------------------------------------------------------------------------------------------------------

var pools = map[string][]string{
	kPublic: {"8.8.8.8", "1.1.1.1", "188.0.2.128", "115.45.98.3", "93.184.216.34", "6.6.6.6", "7.7.7.7", "172.15.255.255", "172.32.0.1",
		"11.0.0.1", "9.255.255.255", "192.167.255.255", "192.169.0.1", "100.63.255.255", "100.128.0.1", "126.255.255.255", "128.0.0.1",
		"169.253.1.1", "169.255.0.1", "223.255.255.254", "198.17.255.255", "198.20.0.1", "3.3.3.3", "4.4.4.4",
		"2606:4700:4700::1111", "2607:f8b0:4004:83f::200e", "2a00:1450:4001:81b::200e", "2400:cb00::1", "2001:4860:4860::8888",
		"2001:200::1", "2003::1", "3ffe::1", "2a02:ffff:ffff:ffff:ffff:ffff:ffff:ffff", "2001:db9::1", "2001:db7:ffff::1"},
	kPrivate: {"10.0.0.1", "10.8.1.2", "10.255.255.255", "10.0.0.0", "172.16.0.1", "172.31.255.255", "172.20.3.4", "192.168.0.1", "192.168.1.15",
		"192.168.255.255", "fc00::1", "fd00::1", "fdff:ffff:ffff:ffff:ffff:ffff:ffff:ffff", "fd12:3456:789a:1::1",
		// the reserved blocks that the same option covers: unicast, not private-use in the RFC 1918 sense, yet never a client
		"100.64.3.7", "100.127.255.254", "198.18.0.9", "198.19.255.255", "240.1.2.3", "192.0.2.55", "198.51.100.7", "203.0.113.9", "192.0.0.9",
		"192.88.99.1", "2001:db8::5", "2002::1", "2002:c000:204::1", "2001::1", "2001:2::9", "100::5"},
	kLoopback:  {"127.0.0.1", "127.255.255.254", "127.1.2.3", "::1"},
	kLinkLocal: {"169.254.0.1", "169.254.255.254", "169.254.169.254", "fe80::1", "fe80::abcd", "febf:ffff::1"},
}

// remote addresses come from a pool of their own, so a silent fall-back to the socket address is always visible
var remotePool = []string{"9.9.9.9", "9.9.9.10", "149.112.112.112", "2620:fe::fe", "2620:fe::9", "fe80::1ff:fe23:4567:890a", "10.9.9.9", "127.9.9.9"}

func selfCheckPools() error {
	for kind, list := range pools {
		for _, s := range list {
			a, err := netip.ParseAddr(s)
			if err != nil {
				return err
			}
			row, sp := special(a)
			if kind == kPublic && sp {
				return fmt.Errorf("%s is generated as public but lies in %s", s, row)
			}
			if kind != kPublic && !sp {
				return fmt.Errorf("%s is generated as %s but lies in no special-purpose block", s, kind)
			}
		}
	}
	return nil
}

var zones = []string{"eth0", "zone", "1", "en0", "wlan-1", "Z9"}

func expanded(a netip.Addr) string {
	b := a.As16()
	parts := make([]string, 8)
	for i := range parts {
		parts[i] = fmt.Sprintf("%04x", uint16(b[2*i])<<8|uint16(b[2*i+1]))
	}
	return strings.Join(parts, ":")
}

// rare is true with probability num/den and, unlike gen.Chance, shrinks towards false (the plain variant).
func rare(t *rapid.T, num, den int, label string) bool { return gen.U(t, den, label) >= den-num }

func port(t *rapid.T) string {
	return gen.Pick(t, []string{"80", "443", "8080", "65535", "1", "4711", "56235"}, "port")
}

// hostText renders an address the way it may appear as a list entry, a for= value, a single-IP header or (with
// forcePort) a socket address. It returns the text, the zone it carries and rendering tags.
func hostText(t *rapid.T, a netip.Addr, forcePort, allowZone bool) (string, string, []string) {
	var tags []string
	if a.Is4() {
		tags = append(tags, "v4")
		if !forcePort && rare(t, 1, 6, "mapped") {
			s := "::ffff:" + a.String()
			switch gen.U(t, 3, "mappedform") {
			case 0:
				return s, "", append(tags, "v4-mapped-v6")
			case 1:
				return "[" + s + "]", "", append(tags, "v4-mapped-v6", "brackets")
			default:
				return "[" + s + "]:" + port(t), "", append(tags, "v4-mapped-v6", "brackets", "port")
			}
		}
		if forcePort || rare(t, 1, 3, "v4port") {
			return a.String() + ":" + port(t), "", append(tags, "port")
		}
		return a.String(), "", append(tags, "bare")
	}
	tags = append(tags, "v6")
	s := a.String()
	switch gen.U(t, 5, "v6form") {
	case 4:
		// the longest textual form: six full groups followed by the last 32 bits as a dotted quad (up to 45 bytes)
		b := a.As16()
		s = expanded(a)[:30] + fmt.Sprintf("%d.%d.%d.%d", b[12], b[13], b[14], b[15])
		tags = append(tags, "v6-expanded-dotted-quad")
	case 2:
		s = expanded(a)
		tags = append(tags, "v6-expanded")
	case 3:
		s = strings.ToUpper(s)
		tags = append(tags, "v6-uppercase")
	}
	zone := ""
	if allowZone && rare(t, 1, 3, "zone") {
		zone = gen.Pick(t, zones, "zonename")
		s += "%" + zone
		tags = append(tags, "zone")
	}
	switch {
	case forcePort:
		return "[" + s + "]:" + port(t), zone, append(tags, "brackets", "port")
	default:
		switch gen.U(t, 3, "v6wrap") {
		case 0:
			return s, zone, append(tags, "bare")
		case 1:
			return "[" + s + "]", zone, append(tags, "brackets")
		default:
			return "[" + s + "]:" + port(t), zone, append(tags, "brackets", "port")
		}
	}
}

func pad(t *rapid.T, s string, tags []string) (string, []string) {
	ws := []string{"", "", "", " ", " ", "  ", "\t", " \t "}
	l, r := gen.Pick(t, ws, "lpad"), gen.Pick(t, ws, "rpad")
	if l != "" || r != "" {
		tags = append(tags, "spaces")
	}
	return l + s + r, tags
}

var junkAlpha = "ghijklmnopqrstuvwxyz0123456789._-!~@#$^&*() \t\x01\x7f\x80\xa0\xff\xc3\xa9"

// junkWord cannot be read as an address by anybody: it starts and ends with a letter beyond 'f' and holds no
// ':' '%' '[' ']' ',' ';' '=' or '"'.
func junkWord(t *rapid.T) string {
	letters := "ghijklmnopqrstuvwxyz"
	n := gen.IntR(t, 0, 10, "junklen")
	b := []byte{letters[gen.U(t, len(letters), "j0")]}
	for i := 0; i < n; i++ {
		b = append(b, junkAlpha[gen.U(t, len(junkAlpha), "jc")])
	}
	if n > 0 {
		b = append(b, letters[gen.U(t, len(letters), "j1")])
	}
	return string(b)
}

var xffJunk = []string{"", "", " ", "unknown", "_hidden", "1.2.3", "999.1.1.1", "1.2.3.4.5", "::g", "for=7.7.7.7", "7.7.7.7 8.8.4.4",
	"7.7.7.7/32", "nope", "-", "2001:db9::1::2", "12345::1", "1.2.3.256", "localhost", "_7.7.7.7", "7.7.7.7_",
	"fe80::1%eth0%1", "8.8.8.8%a%b", "%eth0"}

var fwdJunk = []string{"", "", " ", "for=", `for=""`, "for=unknown", "For=_hidden", `for="_x9"`, "for=1.2.3", "for=999.1.1.1", `for="[::g]"`,
	"by=7.7.7.7", "7.7.7.7", "proto=https;by=7.7.7.7", "for", "=7.7.7.7", "fo=7.7.7.7", "forr=7.7.7.7", "for =7.7.7.7", "x-for=7.7.7.7", `for="7.7.7.7`, `for=7.7.7.7"`, `for="[2606:4700::1]`,
	"by=7.7.7.7;for=unknown;proto=http", "host=example.com", `for="[2001:db9::1::2]"`, "for=1.2.3.256;by=7.7.7.7",
	`for="[fe80::1%eth0%1]"`, `for="8.8.8.8%a%b"`}

var forNames = []string{"for", "for", "For", "FOR", "fOr", "foR"}
var otherParams = [][]string{
	{"by=203.0.113.43", "By=7.7.7.7", `by="[2606:4700::6810:85e5]:8080"`, "BY=_gateway", "by=unknown", "by=10.0.0.9"},
	{"proto=https", "Proto=http", "PROTO=https"},
	{"host=example.com", `Host="a.example:8443"`, "host=7.7.7.7", `HOST="[2606:4700::1]"`},
}

// fwdElement wraps a for= value into a Forwarded element with up to three other parameters in any order.
func fwdElement(t *rapid.T, forVal string, tags []string) (string, []string) {
	params := []string{gen.Pick(t, forNames, "forname") + "=" + forVal}
	if params[0][:3] != "for" {
		tags = append(tags, "for-mixed-case")
	}
	nOther := gen.Pick(t, []int{0, 0, 1, 2, 3}, "nother")
	perm := []int{0, 1, 2}
	for i := 2; i > 0; i-- {
		j := gen.U(t, i+1, "perm")
		perm[i], perm[j] = perm[j], perm[i]
	}
	for _, k := range perm[:nOther] {
		p := gen.Pick(t, otherParams[k], "other")
		if gen.Chance(t, 1, 2, "before") {
			params = append([]string{p}, params...)
		} else {
			params = append(params, p)
		}
	}
	if nOther > 0 {
		tags = append(tags, fmt.Sprintf("fwd-params-%d", nOther+1))
	}
	if rare(t, 1, 5, "ext") {
		// extension parameters (RFC 7239 section 5.5) after the standard ones: for= stays among the first four parameters, so the
		// element still designates its address however many parameters follow
		for i, n := 0, gen.IntR(t, 1, 3, "next"); i < n; i++ {
			params = append(params, gen.Pick(t, []string{"secret=abc", "ext=1", `x-id="7"`, "via=_proxy"}, "extparam"))
		}
		tags = append(tags, fmt.Sprintf("fwd-extension-params-total-%d", len(params)))
	}
	sep := ";"
	if nOther > 0 && rare(t, 1, 4, "semisp") {
		sep = gen.Pick(t, []string{"; ", " ;", " ; "}, "semi")
		tags = append(tags, "fwd-space-around-semicolon")
	}
	return strings.Join(params, sep), tags
}

func randomPublic(t *rapid.T) netip.Addr {
	if gen.Chance(t, 2, 3, "rv4") {
		var b [4]byte
		for i := range b {
			b[i] = byte(gen.U(t, 256, "octet"))
		}
		if a := netip.AddrFrom4(b); !isSpecial(a) {
			return a
		}
		return netip.MustParseAddr("8.8.4.4")
	}
	var b [16]byte
	for i := range b {
		b[i] = byte(gen.U(t, 256, "octet"))
	}
	b[0] = 0x20 | b[0]&0x1f // 2000::/3
	if a := netip.AddrFrom16(b); !isSpecial(a) {
		return a
	}
	return netip.MustParseAddr("2606:4700::1")
}

func isSpecial(a netip.Addr) bool { _, sp := special(a); return sp }

type style int

const (
	styleXFF style = iota
	styleFwd
	styleSingle
)

var kindWeights = []string{kPublic, kPublic, kPublic, kPublic, kPrivate, kPrivate, kPrivate, kLoopback, kLinkLocal, kLinkLocal, kJunk, kJunk, kJunk, kJunk, kUnspec}

func genEntry(t *rapid.T, st style) Entry {
	return genEntryOf(t, st, gen.Pick(t, kindWeights, "kind"))
}

var tailKinds = []string{kPrivate, kPrivate, kPrivate, kJunk, kJunk, kLoopback, kLinkLocal, kUnspec}

func genEntryOf(t *rapid.T, st style, kind string) Entry {
	switch kind {
	case kJunk:
		var s string
		tag := "junk-listed"
		switch st {
		case styleFwd:
			switch gen.U(t, 4, "junkform") {
			case 0:
				s, tag = "for="+junkWord(t), "junk-arbitrary"
			case 1:
				s, tag = junkWord(t), "junk-arbitrary"
			default:
				s = gen.Pick(t, fwdJunk, "fwdjunk")
			}
		case styleSingle:
			if gen.Chance(t, 1, 3, "junkform") {
				s, tag = junkWord(t), "junk-arbitrary"
			} else {
				s = gen.Pick(t, append([]string{"7.7.7.7, 8.8.4.4", "7.7.7.7,8.8.4.4"}, xffJunk[2:]...), "sjunk")
				if strings.TrimSpace(s) == "" {
					s = ""
				}
			}
		default:
			if gen.Chance(t, 1, 3, "junkform") {
				s, tag = junkWord(t), "junk-arbitrary"
			} else {
				s = gen.Pick(t, xffJunk, "xffjunk")
			}
		}
		if strings.TrimSpace(s) == "" {
			tag = "junk-empty"
		}
		return Entry{Kind: kJunk, Text: stats.B(s), Rend: tag}
	case kUnspec:
		forms := []string{"0.0.0.0", "::", "0:0:0:0:0:0:0:0", "[::]", "0.0.0.0:80", "[::]:443"}
		s := gen.Pick(t, forms, "unspec")
		tags := []string{"unspecified"}
		if st == styleFwd {
			if strings.Contains(s, ":") && gen.Chance(t, 2, 3, "q") {
				s = `"` + s + `"`
			}
			s, tags = fwdElement(t, s, tags)
		}
		return Entry{Kind: kUnspec, Text: stats.B(s), Rend: strings.Join(tags, "+")}
	}
	var a netip.Addr
	if kind == kPublic && rare(t, 1, 4, "randpub") {
		a = randomPublic(t)
	} else {
		a = netip.MustParseAddr(gen.Pick(t, pools[kind], "addr"))
	}
	s, zone, tags := hostText(t, a, false, true)
	switch st {
	case styleFwd:
		needQuote := strings.ContainsAny(s, ":[")
		if (needQuote && !rare(t, 1, 4, "quote")) || (!needQuote && rare(t, 1, 4, "quote")) {
			s = `"` + s + `"`
			tags = append(tags, "quoted")
		} else if needQuote {
			tags = append(tags, "fwd-unquoted-v6-or-port")
		}
		s, tags = fwdElement(t, s, tags)
		s, tags = pad(t, s, tags)
	case styleXFF:
		s, tags = pad(t, s, tags)
	}
	return Entry{Kind: kind, Addr: a.String(), Zone: zone, Text: stats.B(s), Rend: strings.Join(tags, "+")}
}

func genListHdr(t *rapid.T, name string, st style) Hdr {
	h := Hdr{Name: name}
	if gen.U(t, 3, "shape") == 2 {
		// proxy-chain shape: anything, then a public client address, then a tail of internal hops and damaged entries
		var es []Entry
		for i, n := 0, gen.IntR(t, 0, 3, "nleft"); i < n; i++ {
			es = append(es, genEntry(t, st))
		}
		es = append(es, genEntryOf(t, st, kPublic))
		for i, n := 0, gen.IntR(t, 1, 4, "ntail"); i < n; i++ {
			es = append(es, genEntryOf(t, st, gen.Pick(t, tailKinds, "tailkind")))
		}
		var line []Entry
		for i, e := range es {
			line = append(line, e)
			if i == len(es)-1 || (len(h.Lines) < 2 && rare(t, 1, 4, "break")) {
				h.Lines = append(h.Lines, line)
				line = nil
			}
		}
		return h
	}
	nl := gen.Pick(t, []int{0, 1, 1, 1, 2, 2, 3}, "nlines")
	for i := 0; i < nl; i++ {
		ne := gen.Pick(t, []int{1, 1, 2, 2, 3, 3, 4, 5}, "nentries")
		var line []Entry
		for j := 0; j < ne; j++ {
			line = append(line, genEntry(t, st))
		}
		h.Lines = append(h.Lines, line)
	}
	return h
}

var singleNames = []string{"X-Real-Ip", "Cf-Connecting-Ip", "True-Client-Ip"}
var singleSpellings = map[string][]string{
	"X-Real-Ip":        {"X-Real-IP", "x-real-ip", "X-Real-Ip"},
	"Cf-Connecting-Ip": {"CF-Connecting-IP", "cf-connecting-ip"},
	"True-Client-Ip":   {"True-Client-IP", "TRUE-CLIENT-IP"},
}

func genSingleHdr(t *rapid.T, name string) Hdr {
	h := Hdr{Name: name}
	n := gen.Pick(t, []int{0, 1, 1, 1, 2, 2, 3}, "ninst")
	for i := 0; i < n; i++ {
		h.Lines = append(h.Lines, []Entry{genEntry(t, styleSingle)})
	}
	return h
}

func genRemote(t *rapid.T) Entry {
	if rare(t, 1, 4, "badremote") {
		s := gen.Pick(t, []string{"@", "", " @", "pipe", "0.0.0.0:80", "[::]:80", "unix:/run/x.sock"}, "remotejunk")
		k := kJunk
		if strings.HasPrefix(s, "0.0.0.0") || strings.HasPrefix(s, "[::]") {
			k = kUnspec
		}
		return Entry{Kind: k, Text: stats.B(s), Rend: "remote-invalid"}
	}
	a := netip.MustParseAddr(gen.Pick(t, remotePool, "remote"))
	forcePort := !rare(t, 1, 8, "noport")
	s, zone, tags := hostText(t, a, forcePort, true)
	if !forcePort && strings.Contains(s, "ffff:") {
		// keep socket addresses in the two documented shapes
		s, zone, tags = a.String(), "", []string{"bare"}
	}
	return Entry{Kind: kPublic, Addr: a.String(), Zone: zone, Text: stats.B(s), Rend: strings.Join(tags, "+")}
}

var cats = []string{kLoopback, kLinkLocal, kPrivate}

func genOpts(t *rapid.T) []Opt {
	switch gen.U(t, 10, "optmode") {
	case 0, 1, 2, 3:
		return nil
	case 4, 5, 6: // all three given, at least one enabled: unambiguous
		perm := []int{0, 1, 2}
		for i := 2; i > 0; i-- {
			j := gen.U(t, i+1, "operm")
			perm[i], perm[j] = perm[j], perm[i]
		}
		mask := gen.IntR(t, 1, 7, "onmask")
		var out []Opt
		for _, k := range perm {
			out = append(out, Opt{cats[k], mask&(1<<k) != 0})
		}
		return out
	default: // any subset, any values
		var out []Opt
		for _, c := range cats {
			if gen.Chance(t, 1, 2, "has") {
				out = append(out, Opt{c, gen.Chance(t, 1, 2, "on")})
			}
		}
		return out
	}
}

func genRanges(t *rapid.T, es []Entry) []string {
	var out []string
	for _, e := range es {
		if !e.valid() || !gen.Chance(t, 1, 2, "cover") {
			continue
		}
		a := netip.MustParseAddr(e.Addr)
		if a.Is4() {
			switch gen.U(t, 6, "v4range") {
			case 5:
				// the same single address the way a dual-stack listener prints it
				out = append(out, "::ffff:"+a.String())
			case 0:
				out = append(out, a.String())
			case 1:
				out = append(out, a.String()+"/32")
			case 2:
				out = append(out, netip.PrefixFrom(a, 24).Masked().String())
			case 3:
				out = append(out, a.String()+"/16") // host bits set: the documented helper masks them
			default:
				out = append(out, netip.PrefixFrom(a, 8).Masked().String())
			}
		} else {
			switch gen.U(t, 4, "v6range") {
			case 0:
				out = append(out, a.String())
			case 1:
				out = append(out, a.String()+"/128")
			case 2:
				out = append(out, netip.PrefixFrom(a, 64).Masked().String())
			default:
				out = append(out, a.String()+"/32")
			}
		}
	}
	if rare(t, 1, 3, "extra") {
		out = append(out, gen.Pick(t, []string{"203.0.113.0/24", "2001:db8::/32", "192.168.0.0/16", "10.0.0.0/8", "fd00::/8", "173.245.48.0/20", "2400:cb00::/32"}, "extrarange"))
	}
	if rare(t, 1, 40, "all") {
		out = append(out, "0.0.0.0/0", "::/0")
	}
	return out
}

func genSpec(t *rapid.T, c *Case, kinds []string) Spec {
	s := Spec{Kind: gen.Pick(t, kinds, "resolver")}
	switch s.Kind {
	case rRemote:
	case rSingle:
		s.Header = gen.Pick(t, singleNames, "single")
		s.CtorName = gen.Pick(t, singleSpellings[s.Header], "spelling")
	case rChain:
		n := gen.IntR(t, 1, 4, "nsubs")
		simple := []string{rRemote, rSingle, rSingle, rLeft, rRightNP, rCount, rRange}
		for i := 0; i < n; i++ {
			if rare(t, 1, 5, "nestedchain") {
				// a chain is a resolver like any other: a member may itself be a chain, anywhere in the list
				nested := Spec{Kind: rChain}
				for j, m := 0, gen.IntR(t, 1, 3, "nnested"); j < m; j++ {
					nested.Subs = append(nested.Subs, genSpec(t, c, simple))
				}
				s.Subs = append(s.Subs, nested)
				continue
			}
			s.Subs = append(s.Subs, genSpec(t, c, simple))
		}
	default:
		s.Header = gen.Pick(t, []string{hXFF, hFwd}, "listheader")
		switch s.Kind {
		case rCount:
			s.Count = gen.Pick(t, []int{1, 1, 2, 2, 2, 3, 3, 4, 5}, "count")
			if n := len(flatten(c.hdr(s.Header))); n > 0 && gen.Chance(t, 1, 2, "fitcount") {
				s.Count = gen.IntR(t, 1, min(n, 5), "count")
			}
		case rLeft:
			s.Limit = gen.Pick(t, []int{1, 2, 2, 3, 3, 4, 5, 6, 100}, "limit")
			s.Opts = genOpts(t)
		case rRightNP:
			s.Opts = genOpts(t)
		case rRange:
			if rare(t, 1, 25, "rangeerr") {
				s.RangeErr = true
			} else {
				s.Ranges = genRanges(t, flatten(c.hdr(s.Header)))
				s.NetForm = gen.Pick(t, []int{0, 0, 1, 2}, "netform")
			}
		}
	}
	return s
}

var prefixTokens = []string{"6.6.6.6", "6.6.6.6", ",", ",", ", ", "10.0.0.1", "127.0.0.1", "for=6.6.6.6", `for="[2606:4700::bad]"`, `"`, `for="`, ";", "=",
	"[", "]", "%", ":", "\x00", "\xff\xfe", "unknown", "_hidden", "for=6.6.6.6;by=10.0.0.1", "fe80::1%eth0", "192.168.1.1", " ", "\t", "for=", "by=", "é"}

func genPrefixText(t *rapid.T) stats.B {
	n := gen.IntR(t, 0, 6, "ptok")
	var sb strings.Builder
	for i := 0; i < n; i++ {
		if rare(t, 1, 6, "rawbyte") {
			sb.WriteByte(byte(gen.U(t, 256, "byte")))
		} else {
			sb.WriteString(gen.Pick(t, prefixTokens, "tok"))
		}
	}
	return stats.B(sb.String())
}

var topKinds = []string{rRemote, rSingle, rSingle, rLeft, rLeft, rLeft, rRightNP, rRightNP, rRightNP, rRightNP, rCount, rCount, rCount, rRange, rRange, rRange, rRange, rChain, rChain, rChain}

func genCase(t *rapid.T) *Case {
	c := &Case{Scope: gen.Pick(t, []string{"global", "global", "route"}, "scope")}
	c.Hdrs = append(c.Hdrs, genListHdr(t, hXFF, styleXFF), genListHdr(t, hFwd, styleFwd))
	for _, n := range singleNames {
		if gen.Chance(t, 2, 3, "hassingle") {
			c.Hdrs = append(c.Hdrs, genSingleHdr(t, n))
		}
	}
	c.Remote = genRemote(t)
	c.Spec = genSpec(t, c, topKinds)
	if isRightmost(c.Spec.Kind) && gen.Chance(t, 2, 3, "prefix") {
		if gen.Chance(t, 1, 2, "plines") {
			n := gen.IntR(t, 1, 3, "nplines")
			for i := 0; i < n; i++ {
				c.PrefixLines = append(c.PrefixLines, genPrefixText(t))
			}
		}
		if len(c.PrefixLines) == 0 || gen.Chance(t, 1, 2, "pinline") {
			p := genPrefixText(t)
			c.Inline = &p
		}
	}
	return c
}

// ---------------------------------------------------------------------------------------------------------------
// default range audit
// ---------------------------------------------------------------------------------------------------------------

// AuditCase: one address as the only entry of the header. An address outside every row of the independent
// special-purpose table is globally routable, hence in none of the loopback / link-local / private categories under
// any option combination, and must be RETURNED by both non-private strategies. Addresses inside a row are not
// judged (the property does not say that every special block must be skipped).
type AuditCase struct {
	Addr     string `json:"addr"`
	Strategy string `json:"strategy"` // rightmost-non-private | leftmost-non-private
	Header   string `json:"header"`
	Opts     []Opt  `json:"opts,omitempty"`
	Limit    int    `json:"limit,omitempty"`
	Origin   string `json:"origin,omitempty"` // how the address was derived (information only)
}

func checkAudit(c *AuditCase, count bool) error {
	a, err := netip.ParseAddr(c.Addr)
	if err != nil {
		return fmt.Errorf("c18: bad audit address %q", c.Addr)
	}
	text := a.String()
	if c.Header == hFwd {
		if a.Is6() {
			text = `for="[` + text + `]"`
		} else {
			text = "for=" + text
		}
	}
	_, sp := special(a)
	kind := kPublic
	if sp {
		kind = kPrivate
	}
	cs := &Case{
		Spec:   Spec{Kind: c.Strategy, Header: c.Header, Opts: c.Opts, Limit: c.Limit},
		Scope:  "global",
		Hdrs:   []Hdr{{Name: c.Header, Lines: [][]Entry{{{Kind: kind, Addr: a.String(), Text: stats.B(text)}}}}},
		Remote: Entry{Kind: kPublic, Addr: "9.9.9.9", Text: "9.9.9.9:4711"},
	}
	res, err := buildResolver(cs.Spec)
	if err != nil {
		return fmt.Errorf("constructor rejected documented-valid parameters: %v", err)
	}
	got, err := observe(res, cs.Scope, cs.httpHeader(false), string(cs.Remote.Text))
	if err != nil {
		return err
	}
	if sp {
		if count {
			stats.Class("audit:special-purpose-address-not-judged")
			if got[0].err == nil {
				stats.Class("audit:special-purpose-address-returned")
			}
		}
		return nil
	}
	if count {
		stats.Class("audit:global-address-judged")
		if a.Is4() {
			stats.Class("audit:global-v4")
		} else {
			stats.Class("audit:global-v6")
		}
	}
	want := hit(cs.Hdrs[0].Lines[0][0], nil, 0, c.Strategy)
	for _, o := range got {
		if !agrees(o, want) {
			b, _ := json.Marshal(cs.Spec)
			return fmt.Errorf("%s lies in no block of the IANA special-purpose registries (nor multicast/reserved), so it is globally routable and in no trusted/excluded category; "+
				"as the only entry of %s: %q the resolver %s must return it, but %s returned %s [%s]", a, c.Header, text, b, o.via, o, c.Origin)
		}
	}
	return nil
}

type auditBlock struct {
	pfx    netip.Prefix
	origin string
}

// auditBlocks: every row of the independent table and every one-digit typo neighbour of a row.
var auditBlocks = func() []auditBlock {
	var out []auditBlock
	seen := map[netip.Prefix]bool{}
	for _, b := range specialBlocks {
		if !seen[b.pfx] {
			seen[b.pfx] = true
			out = append(out, auditBlock{b.pfx, "table row " + b.pfx.String()})
		}
	}
	for _, b := range specialBlocks {
		if b.pfx.Bits() < 4 { // the three catch-all IPv6 rows have no meaningful typo neighbours
			continue
		}
		for _, n := range typoNeighbours(b.pfx) {
			if !seen[n] {
				seen[n] = true
				out = append(out, auditBlock{n, "one-digit neighbour " + n.String() + " of table row " + b.pfx.String()})
			}
		}
	}
	return out
}()

func auditPoints(b auditBlock, rnd func() byte) []AuditCase {
	lo, hi := blockEnds(b.pfx)
	var out []AuditCase
	add := func(a netip.Addr, what string) {
		out = append(out, AuditCase{Addr: a.String(), Origin: what + " of " + b.origin})
	}
	add(lo, "first address")
	add(hi, "last address")
	if a, ok := step(lo, false); ok {
		add(a, "address just below")
	}
	if a, ok := step(hi, true); ok {
		add(a, "address just above")
	}
	if b.pfx.Bits() < b.pfx.Addr().BitLen() {
		add(inside(b.pfx, rnd), "inner address")
	}
	return out
}

func skipAudit(t *testing.T) {
	if os.Getenv("C18_SKIP_AUDIT") != "" {
		t.Skip("C18_SKIP_AUDIT set (sensitivity experiments on a tree where the audit is already red)")
	}
}

func TestAuditRandom(t *testing.T) {
	skipAudit(t)
	rapid.Check(t, func(t *rapid.T) {
		rnd := func() byte { return byte(gen.U(t, 256, "hostbits")) }
		var c AuditCase
		switch gen.U(t, 4, "source") {
		case 0: // anywhere in the address space
			if gen.Chance(t, 1, 2, "v4") {
				c = AuditCase{Addr: inside(netip.MustParsePrefix("0.0.0.0/0"), rnd).String(), Origin: "uniform IPv4 address"}
			} else {
				c = AuditCase{Addr: inside(netip.MustParsePrefix("2000::/3"), rnd).String(), Origin: "uniform global-unicast IPv6 address"}
			}
		default:
			b := gen.Pick(t, auditBlocks, "block")
			pts := auditPoints(b, rnd)
			c = pts[gen.U(t, len(pts), "point")]
		}
		c.Strategy = gen.Pick(t, []string{rRightNP, rLeft}, "strategy")
		c.Header = gen.Pick(t, []string{hXFF, hFwd}, "header")
		c.Opts = genOpts(t)
		if c.Strategy == rLeft {
			c.Limit = gen.IntR(t, 1, 4, "limit")
		}
		defer stats.Guard("audit", func() any { return c })()
		stats.Eval()
		stats.Sample(c)
		if err := checkAudit(&c, true); err != nil {
			stats.Fail("audit", c, "%v", err)
			t.Fatalf("%v", err)
		}
	})
}

// (defined after TestAuditRandom so that its summary is the failure that gets recorded)
// TestAuditSweep is deterministic: boundary and one fixed inner address of every audit block, both strategies,
// default options, X-Forwarded-For and Forwarded alternating.
func TestAuditSweep(t *testing.T) {
	skipAudit(t)
	stats.Note("audit_blocks", len(auditBlocks))
	stats.Note("audit_table_rows", len(specialBlocks))
	k := byte(0)
	rnd := func() byte { k += 0x5b; return k } // fixed pattern, not a random source
	n := 0
	type bad struct {
		c   AuditCase
		a   netip.Addr
		err error
	}
	var bads []bad
	for _, b := range auditBlocks {
		for _, p := range auditPoints(b, rnd) {
			for _, strat := range []string{rRightNP, rLeft} {
				c := p
				c.Strategy = strat
				c.Header = hXFF
				if n%3 == 2 {
					c.Header = hFwd
				}
				if strat == rLeft {
					c.Limit = 1 + n%3
				}
				n++
				stats.Eval()
				if n%997 == 1 {
					stats.Sample(c)
				}
				if err := checkAudit(&c, true); err != nil {
					bads = append(bads, bad{c, netip.MustParseAddr(c.Addr), err})
				}
			}
		}
	}
	if len(bads) == 0 {
		return
	}
	// report the numerically smallest failing address and the span of all of them
	lo, hi := bads[0], bads[0]
	for _, b := range bads[1:] {
		if b.a.Less(lo.a) || (b.a == lo.a && lo.c.Header != hXFF && b.c.Header == hXFF) {
			lo = b
		}
		if hi.a.Less(b.a) {
			hi = b
		}
	}
	stats.Fail("audit", lo.c, "%v (the sweep found %d failing probes, addresses from %s to %s)", lo.err, len(bads), lo.a, hi.a)
	t.Errorf("%v (%d failing probes, from %s to %s)", lo.err, len(bads), lo.a, hi.a)
}

// ---------------------------------------------------------------------------------------------------------------
// native fuzzing on raw header bytes: crash freedom and prefix invariance of the rightmost strategies
// ---------------------------------------------------------------------------------------------------------------

var fuzzRanges = []string{"10.0.0.0/8", "192.168.0.0/16", "fd00::/8", "3.3.3.3", "2001:db8::/32", "127.0.0.1"}

func fuzzOne(data, prefix string, sel byte) error {
	name := hXFF
	if sel&1 == 1 {
		name = hFwd
	}
	s := Spec{Header: name}
	switch (sel >> 1) % 3 {
	case 0:
		s.Kind, s.Count = rCount, 1+int(sel>>3)%4
	case 1:
		s.Kind = rRightNP
	default:
		s.Kind, s.Ranges = rRange, fuzzRanges
	}
	res, err := buildResolver(s)
	if err != nil {
		return err
	}
	lines := strings.Split(data, "\n")
	if len(lines) > 4 {
		lines = lines[:4]
	}
	run := func(vals []string) (obs, error) {
		got, err := observe(res, "global", http.Header{name: vals}, "9.9.9.9:1")
		if err != nil {
			return obs{}, err
		}
		for _, o := range got {
			if o.err == nil && o.ip == nil {
				return obs{}, fmt.Errorf("%s %q: %s returned (nil, nil)", name, vals, o.via)
			}
			if (o.err == nil) != (got[0].err == nil) || (o.err == nil && (!o.ip.IP.Equal(got[0].ip.IP) || o.ip.Zone != got[0].ip.Zone)) {
				return obs{}, fmt.Errorf("%s %q: %s returned %s but %s returned %s", name, vals, got[0].via, got[0], o.via, o)
			}
		}
		return got[0], nil
	}
	base, err := run(lines)
	if err != nil {
		return err
	}
	entries := 0
	for _, l := range lines {
		entries += strings.Count(l, ",") + 1
	}
	variants := [][]string{
		append(strings.Split(prefix, "\n"), lines...),
		append([]string{prefix + "," + lines[0]}, lines[1:]...),
	}
	for _, v := range variants {
		o, err := run(v)
		if err != nil {
			return err
		}
		if base.err == nil {
			if o.err != nil || !o.ip.IP.Equal(base.ip.IP) || o.ip.Zone != base.ip.Zone {
				return fmt.Errorf("resolver %s on %s: %q gives %s, but with attacker material prepended on the left (%q) it gives %s", s.Kind, name, lines, base, v, o)
			}
		} else if s.Kind == rCount && entries >= s.Count && o.err == nil {
			return fmt.Errorf("resolver %s count=%d on %s: %q has %d entries and gives %s, but with material prepended on the left (%q) it gives %s", s.Kind, s.Count, name, lines, entries, base, v, o)
		}
	}
	return nil
}

func FuzzRightmost(f *testing.F) {
	f.Add("1.1.1.1, 2001:db8:cafe::99%eth0, 3.3.3.3, 192.168.1.1", "6.6.6.6", byte(0))
	f.Add(`For=fe80::abcd;By=fe80::1234, Proto=https;For=::ffff:188.0.2.128, For="[2001:db8:cafe::17]:4848", For=fc00::1`, `for="6.6.6.6`, byte(3))
	f.Add("1.1.1.1, invalid, 3.3.3.3, 192.168.1.1\n10.0.0.1", "6.6.6.6,", byte(4))
	f.Add(`for=192.0.2.60;proto=http; by=203.0.113.43`+"\n"+`for="[::1]"`, "for=6.6.6.6;by=1.1.1.1\n,", byte(5))
	f.Add("", "", byte(10))
	f.Add(",,[::1]:x,%", "\x00", byte(18))
	f.Fuzz(func(t *testing.T, data, prefix string, sel byte) {
		if err := fuzzOne(data, prefix, sel); err != nil {
			t.Fatalf("%v", err)
		}
	})
}

// RawCase is an input of the raw-bytes oracle: header instances separated by '\n', attacker prefix, selector byte
// (bit 0: header, bits 1-2: strategy, bits 3-4: trusted count - 1).
type RawCase struct {
	Data   stats.B `json:"data"`
	Prefix stats.B `json:"prefix"`
	Sel    byte    `json:"sel"`
}

// TestRawPrefix runs the fuzz oracle on rapid-made raw inputs in the ordinary tiers (the coverage-guided run is
// thorough-tier only).
func TestRawPrefix(t *testing.T) {
	rapid.Check(t, func(t *rapid.T) {
		n := gen.IntR(t, 0, 8, "ntok")
		var sb strings.Builder
		toks := append([]string{"\n", "1.1.1.1", "8.8.8.8:80", "[2606:4700::1]:443", "for=1.2.3.4", `for="[2606:4700::2]"`, "192.168.0.7", "3.3.3.3", "fd00::2"}, prefixTokens...)
		for i := 0; i < n; i++ {
			sb.WriteString(gen.Pick(t, toks, "tok"))
			if gen.Chance(t, 1, 2, "comma") {
				sb.WriteString(",")
			}
		}
		c := RawCase{stats.B(sb.String()), genPrefixText(t), byte(gen.U(t, 256, "sel"))}
		defer stats.Guard("raw-prefix", func() any { return c })()
		stats.Eval()
		stats.Class("raw-prefix-invariance")
		if err := fuzzOne(string(c.Data), string(c.Prefix), c.Sel); err != nil {
			stats.Fail("raw-prefix", c, "%v", err)
			t.Fatalf("%v", err)
		}
	})
}

// TestRandom is defined last: stats keeps the last recorded failure and the typed case is the most readable one.
func TestRandom(t *testing.T) {
	rapid.Check(t, func(t *rapid.T) {
		c := genCase(t)
		defer stats.Guard("resolve", func() any { return c })()
		stats.Eval()
		stats.Sample(c)
		if err := checkCase(c, true); err != nil {
			stats.Fail("resolve", c, "%v", err)
			t.Fatalf("%v", err)
		}
	})
}
