ENTRY = {
    "C15": dict(
        pkg="c15", level="fault_enumeration",
        technique="fault injection (panic with generated values at generated points, exhaustive over the small dimensions) with an oracle on the response, the re-raised value, the diagnostic record and follow-up use of the router",
        level_text="A panic is raised with thirteen kinds of value (strings, errors, wrapped errors, typed nil, custom types, a real runtime error, net.OpError "
                   "with EPIPE / ECONNRESET / other errno / no syscall error, http.ErrAbortHandler bare and wrapped) in route, no-route, no-method and options handlers, in "
                   "inner middleware before and after the handler, and inside Updates/View functions after 0-4 writes, with nothing / an informational header / a final "
                   "header / a partial body already sent, and with credential-bearing and ordinary request headers stored under canonical, lower-case, upper-case and mixed names. "
                   "Checked: containment or identical re-raise, the exact response rule, one diagnostic record naming route, parameters and request line and containing no "
                   "credential value, unchanged route set, a served follow-up request and a follow-up write that gets the lock (goroutine-dump verdict). "
                   "A second generator serves sequences of panicking and quiet requests (headers up to 40 000 bytes) below fox.Recovery() in a child process and reads what the built-in handler "
                   "printed while each request was served: one record about that request for a panic, nothing otherwise.",
        level_note="Fault points are handler/middleware boundaries and the steps of a managed transaction function, not arbitrary instructions inside fox.",
        rule="cases: (handler kind, panic site, value, response progress, headers); non-trivial = panic after a partial body, or a credential header stored under a non-canonical name, "
             "or a panic at an interior step of Updates; distinct by the whole case",
        assumptions=["Recovery installed for all scopes through CustomRecoveryWithLogHandler with a capturing slog.Handler", "header values are unique random tokens, so any occurrence in the record is a leak"],
        quick=[REPLAY, R("panics", "^(TestPanics|TestExhaustive)$", checks=6000, timeout=600),
               R("default-recovery", "^TestDefaultRecovery$", checks=40, timeout=600)],
        thorough=[REPLAY, R("panics", "^(TestPanics|TestExhaustive)$", checks=50000, shards=16, timeout=3000),
                  R("default-recovery", "^TestDefaultRecovery$", checks=300, shards=8, timeout=3000)],
    ),
}
