// C15 — handler panics are contained and leave the router usable.
package c15

import (
	"bufio"
	"bytes"
	"context"
	"encoding/json"
	"errors"
	"fmt"
	"io"
	"log/slog"
	"net"
	"net/http"
	"net/http/httptest"
	"os"
	"os/exec"
	"sort"
	"strings"
	"syscall"
	"testing"
	"time"

	"github.com/tigerwill90/fox"
	"pgregory.net/rapid"

	"verif/gen"
	"verif/hist"
	"verif/stats"
)

func TestMain(m *testing.M) {
	if raw := os.Getenv("C15_DR_CASE"); raw != "" {
		// child process of TestDefaultRecovery: serve the sequence below fox.Recovery(), whose records go to this process's
		// stdout/stderr through the built-in handler
		defaultRecoveryChild(raw)
		os.Exit(0)
	}
	stats.Init("C15")
	stats.RegisterReplay("default-recovery", func(raw json.RawMessage) error {
		var c DRCase
		if err := json.Unmarshal(raw, &c); err != nil {
			return err
		}
		return checkDefaultRecovery(&c)
	})
	stats.RegisterReplay("panic", func(raw json.RawMessage) error {
		var c Case
		if err := json.Unmarshal(raw, &c); err != nil {
			return err
		}
		return checkCase(&c)
	})
	os.Exit(stats.Finish(m.Run()))
}

func TestReplay(t *testing.T) { stats.RunReplays(t) }

type Header struct {
	Name   string `json:"name"` // exactly as stored in the header map
	Value  string `json:"value"`
	Secret bool   `json:"secret"`
}

type Case struct {
	Kind     string   `json:"kind"`     // route, route-ts (route served by ignoring a trailing slash), noroute, nomethod, options
	Where    string   `json:"where"`    // handler, inner-mw-before, inner-mw-after, updates-body, view-body
	Cut      int      `json:"cut"`      // for updates-body: number of writes done before the panic
	Value    string   `json:"value"`    // which panic value
	Progress string   `json:"progress"` // none, informational, header, body
	Headers  []Header `json:"headers"`
	// First: for updates-body, the first write of the transaction (before the Cut registrations): "" none, "truncate-get",
	// "truncate-post-get", "truncate-all", "update", "delete"
	First string `json:"first,omitempty"`
	// Ctx: state of the request's context when the panic is recovered: "" live, "canceled" (the request arrived with a
	// canceled context), "deadline" (its deadline had expired), "canceled-in-mw" (a middleware inside Recovery derived a
	// cancellable context, attached it with SetRequest and its deferred cancel ran while the panic unwound). None of them is a
	// broken connection reported by the panic value.
	Ctx string `json:"ctx,omitempty"`
	// CloneWith: a global middleware outside Recovery hands a CloneWith copy of the context down the chain (what a
	// response-wrapping middleware does); Recovery then works on that copy
	CloneWith bool `json:"clone_with,omitempty"`
	// LogLevel: which records the slog handler given to the Recovery middleware accepts: "" everything, "error" only ERROR and
	// above, "off" nothing (like slog.DiscardHandler). What the client gets does not depend on it; with "off" no record exists
	// to be judged.
	LogLevel string `json:"log_level,omitempty"`
	// LongTarget: the request target carries a further query parameter of that many bytes (a request line of several KiB)
	LongTarget int `json:"long_target,omitempty"`
	// ParamForm: what the two parameter values of the panicking route look like in the request target: 0 plain, 1 an escaped
	// percent sign, 2 an escaped slash, 3 escaped dots and an escaped percent sign (the router matches the escaped target when
	// the server kept one, so the values are the escaped forms)
	ParamForm int `json:"param_form,omitempty"`
	// Mounted (panic site "handler"): the handler hands its c.Writer() and request to a second router without Recovery,
	// whose handler makes the progress and panics; the panic crosses both routers up to the Recovery of the first
	Mounted bool `json:"mounted,omitempty"`
	// RFWriter: the underlying writer implements io.ReaderFrom (as net/http's does), so the recorder hands sources over to it
	RFWriter bool `json:"rf_writer,omitempty"`
}

var ctxStates = []string{"", "", "", "canceled", "deadline", "canceled-in-mw"}

var firsts = []string{"", "", "truncate-get", "truncate-post-get", "truncate-all", "update", "delete"}

type custom struct{ A int }

var sentinelAbortWrapped = fmt.Errorf("wrapped: %w", http.ErrAbortHandler)

func panicValue(name string) (v any, abort bool, broken bool) {
	switch name {
	case "string":
		return "boom", false, false
	case "error":
		return errors.New("plain error"), false, false
	case "wrapped-error":
		return fmt.Errorf("outer: %w", errors.New("inner")), false, false
	case "nil-like":
		var p *custom
		return p, false, false
	case "int":
		return 42, false, false
	case "custom":
		return custom{7}, false, false
	case "runtime-error":
		return nil, false, false // produced by an actual nil map write, see raise()
	case "abort":
		return http.ErrAbortHandler, true, false
	case "abort-wrapped":
		return sentinelAbortWrapped, true, false
	case "epipe":
		return &net.OpError{Op: "write", Net: "tcp", Err: &os.SyscallError{Syscall: "write", Err: syscall.EPIPE}}, false, true
	case "econnreset":
		return &net.OpError{Op: "read", Net: "tcp", Err: &os.SyscallError{Syscall: "read", Err: syscall.ECONNRESET}}, false, true
	case "epipe-text":
		return &net.OpError{Op: "write", Net: "tcp", Err: &os.SyscallError{Syscall: "write", Err: errors.New("broken pipe")}}, false, true
	case "econnreset-text":
		return &net.OpError{Op: "read", Net: "tcp", Err: &os.SyscallError{Syscall: "read", Err: errors.New("Connection reset by peer")}}, false, true
	case "epipe-wrapped-syscall":
		return &net.OpError{Op: "write", Net: "tcp", Err: fmt.Errorf("sendfile: %w", &os.SyscallError{Syscall: "write", Err: syscall.EPIPE})}, false, true
	case "econnrefused":
		return &net.OpError{Op: "dial", Net: "tcp", Err: &os.SyscallError{Syscall: "connect", Err: syscall.ECONNREFUSED}}, false, false
	case "operror-no-syscall":
		return &net.OpError{Op: "write", Net: "tcp", Err: errors.New("use of closed network connection")}, false, false
	}
	return "boom", false, false
}

var values = []string{"string", "error", "wrapped-error", "nil-like", "int", "custom", "runtime-error", "abort", "abort-wrapped", "epipe", "econnreset", "epipe-text", "econnreset-text", "epipe-wrapped-syscall", "econnrefused", "operror-no-syscall"}

var raised int

func raise(name string) {
	raised++
	if name == "runtime-error" {
		var m map[string]int
		m["x"] = 1
	}
	v, _, _ := panicValue(name)
	panic(v)
}

type capture struct {
	buf     bytes.Buffer
	records int
	level   string
}

func (c *capture) Enabled(_ context.Context, l slog.Level) bool {
	switch c.level {
	case "error":
		return l >= slog.LevelError
	case "off":
		return false
	}
	return true
}
func (c *capture) Handle(_ context.Context, r slog.Record) error {
	c.records++
	fmt.Fprintf(&c.buf, "LEVEL=%s MSG=%s", r.Level, r.Message)
	r.Attrs(func(a slog.Attr) bool {
		fmt.Fprintf(&c.buf, " ATTR %s=%v", a.Key, a.Value)
		return true
	})
	c.buf.WriteByte('\n')
	return nil
}
func (c *capture) WithAttrs([]slog.Attr) slog.Handler { return c }
func (c *capture) WithGroup(string) slog.Handler      { return c }

type recW struct {
	h       http.Header
	codes   []int
	body    bytes.Buffer
	flushes int
}

func (w *recW) Header() http.Header         { return w.h }
func (w *recW) WriteHeader(c int)           { w.codes = append(w.codes, c) }
func (w *recW) Write(b []byte) (int, error) { return w.body.Write(b) }
func (w *recW) Flush()                      { w.flushes++ }

// recWRF is recW with the io.ReaderFrom fast path; like net/http it sends the implicit 200 with the first bytes.
type recWRF struct{ *recW }

func (w recWRF) ReadFrom(r io.Reader) (n int64, err error) {
	buf := make([]byte, 64)
	for {
		k, rerr := r.Read(buf)
		if k > 0 {
			final := false
			for _, code := range w.codes {
				final = final || code < 100 || code > 199 || code == 101
			}
			if !final {
				w.codes = append(w.codes, http.StatusOK)
			}
			w.body.Write(buf[:k])
			n += int64(k)
		}
		if rerr == io.EOF {
			return n, nil
		}
		if rerr != nil {
			return n, rerr
		}
	}
}

// recWHJ is recW on a connection that can be taken over once: a second Hijack fails with http.ErrHijacked, as net/http's does.
type recWHJ struct {
	*recW
	taken *int
}

func (w recWHJ) Hijack() (net.Conn, *bufio.ReadWriter, error) {
	if *w.taken++; *w.taken > 1 {
		return nil, nil, http.ErrHijacked
	}
	a, b := net.Pipe()
	_ = b.Close()
	return a, bufio.NewReadWriter(bufio.NewReader(a), bufio.NewWriter(a)), nil
}

// panicSrc delivers "partial" and panics with the case's value when it is read again.
type panicSrc struct {
	value string
	reads int
}

func (s *panicSrc) Read(b []byte) (int, error) {
	if s.reads++; s.reads == 1 {
		return copy(b, "partial"), nil
	}
	raise(s.value)
	return 0, io.EOF
}

var sensitive = []string{"Authorization", "Proxy-Authorization", "Cookie", "Set-Cookie", "X-CSRF-Token", "X-Vault-Token"}

func checkCase(c *Case) (err error) {
	logs := &capture{level: c.LogLevel}
	ran := map[string]int{}
	var f *fox.Router
	progress := func(ctx fox.Context) {
		switch c.Progress {
		case "informational":
			ctx.Writer().WriteHeader(http.StatusEarlyHints)
		case "header":
			ctx.Writer().WriteHeader(http.StatusAccepted)
		case "body":
			ctx.Writer().WriteHeader(http.StatusAccepted)
			_, _ = ctx.Writer().Write([]byte("partial"))
		case "hijacked-twice":
			// the handler takes the connection over, and something it calls tries again (and is told no): the connection
			// stays the handler's, nothing more goes through the writer - not even Recovery's 500
			if conn, _, err := ctx.Writer().Hijack(); err == nil {
				_ = conn.Close()
			}
			_, _, _ = ctx.Writer().Hijack()
		case "readfrom-panic":
			// the response is started by the first bytes of a source that panics when read again: the panic of the case is
			// raised from inside ReadFrom, after "partial" went out
			_, _ = ctx.Writer().ReadFrom(&panicSrc{value: c.Value})
		case "switching":
			// 101 is a final header: the response is started, although no body byte follows
			ctx.Writer().WriteHeader(http.StatusSwitchingProtocols)
		case "flush":
			// the response is started by a flush alone: the implicit 200 header goes out
			_ = ctx.Writer().FlushError()
		}
	}
	boom := func(ctx fox.Context) {
		ran["boom"]++
		if c.Mounted && c.Where == "handler" {
			if inner, err := fox.New(fox.WithNoRouteHandler(func(ic fox.Context) {
				progress(ic)
				raise(c.Value)
			})); err == nil {
				inner.ServeHTTP(ctx.Writer(), ctx.Request())
				return
			}
		}
		progress(ctx)
		switch c.Where {
		case "updates-body":
			_ = f.Updates(func(txn *fox.Txn) error {
				switch c.First {
				case "truncate-get":
					_ = txn.Truncate("GET")
				case "truncate-post-get":
					_ = txn.Truncate("POST", "GET")
				case "truncate-all":
					_ = txn.Truncate()
				case "update":
					_, _ = txn.Update("GET", "/ok/{id}", func(fox.Context) {})
				case "delete":
					_, _ = txn.Delete("POST", "/only-post")
				}
				for i := 0; i < c.Cut; i++ {
					if _, err := txn.Handle("GET", fmt.Sprintf("/uncommitted/%d", i), func(fox.Context) {}); err != nil {
						return err
					}
				}
				if c.Cut > 1 {
					_, _ = txn.Delete("GET", "/ok/{id}")
				}
				raise(c.Value)
				return nil
			})
		case "view-body":
			_ = f.View(func(txn *fox.Txn) error {
				_ = txn.Has("GET", "/ok/{id}")
				raise(c.Value)
				return nil
			})
		default:
			raise(c.Value)
		}
	}
	inner := func(next fox.HandlerFunc) fox.HandlerFunc {
		return func(ctx fox.Context) {
			if c.Where == "inner-mw-before" {
				progress(ctx)
				raise(c.Value)
			}
			next(ctx)
			if c.Where == "inner-mw-after" {
				raise(c.Value)
			}
		}
	}
	okHandler := func(ctx fox.Context) {
		ran["ok"]++
		ctx.Writer().WriteHeader(http.StatusOK)
	}
	routeHandler := fox.HandlerFunc(boom)
	if strings.HasPrefix(c.Where, "inner-mw") {
		routeHandler = func(ctx fox.Context) {
			ran["boom"]++
			if c.Where == "inner-mw-after" {
				progress(ctx)
			}
		}
	}
	special := fox.HandlerFunc(boom)
	timeoutMw := func(next fox.HandlerFunc) fox.HandlerFunc {
		return func(fc fox.Context) {
			if c.Ctx == "canceled-in-mw" {
				cctx, cancel := context.WithCancel(fc.Request().Context())
				defer cancel()
				fc.SetRequest(fc.Request().WithContext(cctx))
			}
			next(fc)
		}
	}
	cloneMw := func(next fox.HandlerFunc) fox.HandlerFunc {
		return func(fc fox.Context) {
			if !c.CloneWith {
				next(fc)
				return
			}
			cp := fc.CloneWith(fc.Writer(), fc.Request())
			defer cp.Close()
			next(cp)
		}
	}
	opts := []fox.GlobalOption{
		fox.WithMiddleware(cloneMw), // outside Recovery: Recovery and everything below it run on the copy
		fox.WithMiddleware(fox.CustomRecoveryWithLogHandler(logs, fox.DefaultHandleRecovery)),
		fox.WithMiddleware(timeoutMw),
		fox.WithNoRouteHandler(special), fox.WithNoMethodHandler(special), fox.WithOptionsHandler(special),
	}
	f, e := fox.New(opts...)
	if e != nil {
		return nil
	}
	f.MustHandle("GET", "/boom/{id}/*{rest}", routeHandler, fox.WithMiddleware(inner))
	f.MustHandle("GET", "/bts/{id}/{rest}", routeHandler, fox.WithMiddleware(inner), fox.WithIgnoreTrailingSlash(true))
	f.MustHandle("GET", "/ok/{id}", okHandler)
	// a route with more parameters than the panicking ones, served before them through an ignored trailing slash: what it leaves
	// in the recycled context must not show up in the record of the panic
	f.MustHandle("GET", "/prior/{pa}/{pb}/{pc}/{pd}", okHandler, fox.WithIgnoreTrailingSlash(true))
	f.MustHandle("POST", "/only-post", okHandler)
	before := snapshot(f)

	method, path := "GET", "/boom/id-77/some/rest-88"
	wantParams := []string{"id-77", "rest-88"}
	forms := [][4]string{{"id-77", "rest-88", "id-77", "rest-88"}, {"100%2541", "rest-88", "100%41", "rest-88"}, {"id-77", "a%2Fb", "id-77", "a%2Fb"}, {"%2e%2e", "x%25y", "%2e%2e", "x%25y"}}[c.ParamForm%4]
	if c.Kind == "route" {
		path = "/boom/" + forms[0] + "/some/" + forms[1]
		wantParams = []string{"id=" + forms[2], "rest=some/" + forms[3]}
	}
	switch c.Kind {
	case "route-ts":
		path = "/bts/" + forms[0] + "/" + forms[1] + "/"
		wantParams = []string{"id=" + forms[2], "rest=" + forms[3]}
	case "noroute":
		path = "/nothing/here"
	case "nomethod":
		path = "/only-post"
	case "options":
		method, path = "OPTIONS", "/only-post"
	}
	target := path + "?query=qv"
	if c.LongTarget > 0 {
		target += "&pad=" + strings.Repeat("p", c.LongTarget)
	}
	req := httptest.NewRequest(method, target, nil)
	switch c.Ctx {
	case "canceled":
		cctx, cancel := context.WithCancel(req.Context())
		cancel()
		req = req.WithContext(cctx)
	case "deadline":
		cctx, cancel := context.WithDeadline(req.Context(), time.Unix(1, 0))
		defer cancel()
		req = req.WithContext(cctx)
	}
	req.Header = http.Header{}
	for _, h := range c.Headers {
		req.Header[h.Name] = append(req.Header[h.Name], h.Value)
	}
	w := &recW{h: http.Header{}}
	val, abort, broken := panicValue(c.Value)
	desc := fmt.Sprintf("case %+v: ", *c)

	for _, pp := range []string{"/prior/stale-a1/stale-b2/stale-c3/stale-d4/", "/prior/stale-a1/stale-b2/stale-c3/stale-d4"} {
		f.ServeHTTP(&recW{h: http.Header{}}, httptest.NewRequest("GET", pp, nil))
	}
	ran["ok"] = 0
	raised = 0
	var escaped any
	func() {
		defer func() { escaped = recover() }()
		var under http.ResponseWriter = w
		if c.RFWriter {
			under = recWRF{w}
		}
		if c.Progress == "hijacked-twice" {
			under = recWHJ{w, new(int)}
		}
		f.ServeHTTP(under, req)
	}()
	if raised != 1 {
		return fmt.Errorf("%sthe panic site was reached %d times", desc, raised)
	}
	if abort {
		if escaped != val {
			return fmt.Errorf("%shttp.ErrAbortHandler must be re-raised unchanged: recovered %v (%T)", desc, escaped, escaped)
		}
	} else if escaped != nil {
		return fmt.Errorf("%sthe panic escaped ServeHTTP: %v", desc, escaped)
	}
	// response
	final := 0
	for _, code := range w.codes {
		if code < 100 || code > 199 || code == 101 {
			if final != 0 {
				return fmt.Errorf("%stwo final status codes were sent: %v", desc, w.codes)
			}
			final = code
		}
	}
	started := c.Progress == "header" || c.Progress == "body" || c.Progress == "switching" || c.Progress == "readfrom-panic"
	if c.Progress == "flush" && !abort {
		// started by a flush: exactly the implicit 200, nothing appended
		if len(w.codes) != 1 || w.codes[0] != http.StatusOK || w.body.Len() != 0 {
			return fmt.Errorf("%sthe response had been started by a flush (implicit 200) and must be left untouched: status codes %v body %q", desc, w.codes, w.body.String())
		}
	}
	switch {
	case c.Progress == "hijacked-twice" && !abort:
		if len(w.codes) != 0 || w.body.Len() != 0 {
			return fmt.Errorf("%sthe connection had been hijacked (a second attempt was refused): nothing may be sent through the writer any more, it received status codes %v body %q", desc, w.codes, w.body.String())
		}
	case abort, c.Progress == "flush":
		// nothing more is required of the response (the flush case was judged above)
	case started:
		wantBody := ""
		if c.Progress == "body" {
			wantBody = "partial"
		}
		wantCode := http.StatusAccepted
		if c.Progress == "switching" {
			wantCode = http.StatusSwitchingProtocols
		}
		if c.Progress == "readfrom-panic" {
			wantCode, wantBody = http.StatusOK, "partial" // the implicit header that goes with the first bytes
		}
		if final != wantCode || w.body.String() != wantBody || len(w.h["Content-Type"]) != 0 {
			return fmt.Errorf("%sthe response had been started (%d, %q) and must be left untouched: status codes %v body %q Content-Type %q", desc, wantCode, wantBody, w.codes, w.body.String(), w.h["Content-Type"])
		}
	case broken:
		if final != 0 || w.body.Len() != 0 {
			return fmt.Errorf("%sthe panic value reports a broken connection, nothing must be sent: status codes %v body %q", desc, w.codes, w.body.String())
		}
	default:
		if final != http.StatusInternalServerError {
			return fmt.Errorf("%snothing had been written: want a 500 response, got status codes %v body %q", desc, w.codes, w.body.String())
		}
	}
	// the log record
	if c.LogLevel == "off" && logs.records != 0 {
		return fmt.Errorf("%s%d record(s) were handed to a slog handler that accepts none", desc, logs.records)
	}
	if !abort && c.LogLevel != "off" {
		text := logs.buf.String()
		if logs.records < 1 {
			return fmt.Errorf("%sno diagnostic record was logged for the recovered panic", desc)
		}
		if c.Kind == "route" || c.Kind == "route-ts" {
			pat := "/boom/{id}/*{rest}"
			if c.Kind == "route-ts" {
				pat = "/bts/{id}/{rest}"
			}
			for _, s := range append([]string{pat}, wantParams...) {
				if !strings.Contains(text, s) {
					return fmt.Errorf("%sthe diagnostic record does not name %q (route and parameters): %s", desc, s, text)
				}
			}
		}
		// outside a registered route the record says which kind of handler panicked, using the names of the exported scope
		// constants: whatever it says, it cannot be the name of a handler kind that did not run
		if own := map[string]string{"noroute": "NoRouteHandler", "nomethod": "NoMethodHandler", "options": "OptionsHandler"}[c.Kind]; own != "" {
			for _, other := range []string{"NoRouteHandler", "NoMethodHandler", "OptionsHandler", "RedirectHandler"} {
				if other != own && strings.Contains(text, "ATTR route="+other) {
					return fmt.Errorf("%sthe panic was raised in the %s but the diagnostic record names %s: %s", desc, own, other, text)
				}
			}
		}
		if strings.Contains(text, "stale-") {
			return fmt.Errorf("%sthe diagnostic record carries a parameter of an earlier request (stale-...): %s", desc, text)
		}
		if !strings.Contains(text, method+" "+target) {
			return fmt.Errorf("%sthe diagnostic record does not contain the request line %q: %s", desc, method+" "+path, text)
		}
		for _, h := range c.Headers {
			if h.Secret && strings.Contains(text, h.Value) {
				return fmt.Errorf("%sthe diagnostic record contains the value of credential header %q (%s)", desc, h.Name, h.Value)
			}
		}
	}
	// the router stays usable: routes unchanged, requests served, writer lock free
	if after := snapshot(f); after != before {
		return fmt.Errorf("%sregistered routes changed from [%s] to [%s]", desc, before, after)
	}
	w2 := httptest.NewRecorder()
	f.ServeHTTP(w2, httptest.NewRequest("GET", "/ok/1", nil))
	if w2.Code != 200 || ran["ok"] != 1 {
		return fmt.Errorf("%sa follow-up request was answered %d (handler ran %d times)", desc, w2.Code, ran["ok"])
	}
	var herr error
	werr, inconclusive := hist.Guarded(func() { _, herr = f.Handle("GET", "/after", okHandler) }, 20*time.Second)
	if werr != nil {
		if inconclusive {
			hist.Inconclusive = true
		}
		return fmt.Errorf("%sfollow-up write: %v", desc, werr)
	}
	if herr != nil {
		return fmt.Errorf("%sfollow-up write failed: %v", desc, herr)
	}
	return nil
}

func snapshot(f *fox.Router) string {
	var out []string
	for m, r := range f.Iter().All() {
		out = append(out, m+" "+r.Pattern())
	}
	sort.Strings(out)
	return fmt.Sprintf("%d:%s", f.Len(), strings.Join(out, ","))
}

func spell(t *rapid.T, name string) string {
	switch gen.U(t, 4, "spelling") {
	case 0:
		return http.CanonicalHeaderKey(name)
	case 1:
		return strings.ToLower(name)
	case 2:
		return strings.ToUpper(name)
	default:
		b := []byte(strings.ToLower(name))
		for i := range b {
			if gen.Chance(t, 1, 2, "upper") && b[i] >= 'a' && b[i] <= 'z' {
				b[i] -= 32
			}
		}
		return string(b)
	}
}

func genCase(t *rapid.T) *Case {
	c := &Case{
		Kind:     gen.Pick(t, []string{"route", "route", "route-ts", "noroute", "nomethod", "options"}, "kind"),
		Value:    gen.Pick(t, values, "value"),
		Progress: gen.Pick(t, []string{"none", "none", "informational", "header", "body", "flush", "switching", "readfrom-panic", "hijacked-twice"}, "progress"),
		Where:    "handler",
	}
	if c.Kind == "route" || c.Kind == "route-ts" {
		c.Where = gen.Pick(t, []string{"handler", "handler", "inner-mw-before", "inner-mw-after", "updates-body", "view-body"}, "where")
	} else if gen.Chance(t, 1, 4, "txn") {
		c.Where = gen.Pick(t, []string{"updates-body", "view-body"}, "where")
	}
	if c.Where == "updates-body" {
		c.Cut = gen.IntR(t, 0, 4, "cut")
		c.First = gen.Pick(t, firsts, "first")
	}
	c.Ctx = gen.Pick(t, ctxStates, "ctx")
	c.CloneWith = gen.Chance(t, 1, 3, "clonewith")
	c.LogLevel = gen.Pick(t, []string{"", "", "", "error", "off"}, "loglevel")
	c.LongTarget = gen.Pick(t, []int{0, 0, 0, 0, 1000, 4090, 5000, 70000}, "longtarget")
	c.ParamForm = gen.Pick(t, []int{0, 0, 0, 1, 2, 3}, "paramform")
	c.Mounted = c.Where == "handler" && gen.Chance(t, 1, 4, "mounted")
	c.RFWriter = gen.Chance(t, 1, 2, "rfwriter")
	n := gen.IntR(t, 0, 6, "nheaders")
	for i := 0; i < n; i++ {
		tok := fmt.Sprintf("tok%dZ%dq", i, gen.IntR(t, 100000, 999999, "tok"))
		if gen.Chance(t, 2, 3, "sensitive") {
			if gen.Chance(t, 1, 3, "short") {
				tok = fmt.Sprintf("Qz%dXk", i) // a credential shorter than what replaces it in the record
			}
			c.Headers = append(c.Headers, Header{Name: spell(t, gen.Pick(t, sensitive, "name")), Value: tok, Secret: true})
		} else {
			c.Headers = append(c.Headers, Header{Name: spell(t, gen.Pick(t, []string{"Accept", "X-Request-Id", "User-Agent", "X-Token-Count", "Cookies"}, "oname")), Value: tok})
		}
	}
	return c
}

func TestPanics(t *testing.T) {
	rapid.Check(t, func(t *rapid.T) {
		c := genCase(t)
		defer stats.Guard("panic", func() any { return c })()
		stats.Eval()
		stats.Sample(c)
		stats.Class("value:" + c.Value)
		stats.Class("where:" + c.Where)
		stats.Class("kind:" + c.Kind)
		stats.Class("progress:" + c.Progress)
		if c.Mounted {
			stats.Class("panic-crosses-a-mounted-second-router")
		}
		stats.Class("log-handler-accepts:" + map[string]string{"": "everything", "error": "error-and-above", "off": "nothing"}[c.LogLevel])
		nonCanon := false
		for _, h := range c.Headers {
			if h.Secret && h.Name != http.CanonicalHeaderKey(h.Name) {
				nonCanon = true
			}
		}
		if nonCanon {
			stats.Class("credential-header-in-non-canonical-spelling")
		}
		if c.Progress == "body" || c.Progress == "flush" || nonCanon || (c.Where == "updates-body" && c.Cut > 0) {
			stats.NonTrivial(fmt.Sprintf("%+v", *c))
		}
		if err := checkCase(c); err != nil {
			stats.Fail("panic", c, "%v", err)
			t.Fatalf("%v", err)
		}
	})
}

// exhaustive product of the small dimensions (values x progress x kind/where), one header set
func TestExhaustive(t *testing.T) {
	hs := []Header{{Name: "Authorization", Value: "tokAAA111q", Secret: true}, {Name: "Cookie", Value: "tokBBB222q", Secret: true}, {Name: "Accept", Value: "tokCCC333q"}}
	for _, v := range values {
		for _, p := range []string{"none", "informational", "header", "body", "flush", "switching", "readfrom-panic", "hijacked-twice"} {
			for _, kw := range [][2]string{{"route", "handler"}, {"route", "inner-mw-before"}, {"route", "inner-mw-after"}, {"route", "updates-body"}, {"route", "view-body"}, {"route-ts", "handler"}, {"route-ts", "inner-mw-before"}, {"route-ts", "inner-mw-after"}, {"noroute", "handler"}, {"nomethod", "handler"}, {"options", "handler"}, {"noroute", "updates-body"}} {
				for cut := 0; cut <= 3; cut++ {
					if kw[1] != "updates-body" && cut > 0 {
						continue
					}
					c := &Case{Kind: kw[0], Where: kw[1], Cut: cut, Value: v, Progress: p, Headers: hs}
					if kw[1] == "updates-body" {
						c.First = firsts[(cut+len(v)+len(p))%len(firsts)]
					}
					c.Ctx = ctxStates[(cut+len(v)+2*len(p)+len(kw[0]))%len(ctxStates)]
					c.CloneWith = (cut+len(v)+len(p)+len(kw[1]))%3 == 0
					stats.Eval()
					stats.NonTrivial(fmt.Sprintf("exh|%+v", *c))
					if err := checkCase(c); err != nil {
						stats.Fail("panic", c, "%v", err)
						t.Fatalf("%v", err)
					}
				}
			}
		}
	}
	stats.Note("exhaustive", "all panic values x response progress x handler kind/panic site x Updates cut 0..3")
}

// ---------------------------------------------------------------- the built-in handler's own output

// DRCase: a sequence of requests served below fox.Recovery(), i.e. with the diagnostic records written by the built-in pretty
// handler to the process's stdout/stderr. Each request has a path of its own and a header of Pad bytes; some handlers panic.
type DRReq struct {
	Pad   int  `json:"pad"`
	Panic bool `json:"panic"`
}

type DRCase struct {
	Reqs []DRReq `json:"reqs"`
}

func drMark(i int) string { return fmt.Sprintf("\n@@C15-MARK-%d@@\n", i) }

func defaultRecoveryChild(raw string) {
	var c DRCase
	if err := json.Unmarshal([]byte(raw), &c); err != nil {
		fmt.Println("C15-CHILD-ERROR", err)
		return
	}
	f, err := fox.New(fox.WithMiddleware(fox.Recovery()))
	if err != nil {
		fmt.Println("C15-CHILD-ERROR", err)
		return
	}
	f.MustHandle("GET", "/bm/{tok}", func(fc fox.Context) {
		if fc.Request().Header.Get("X-Panic") != "" {
			panic("c15: handler of " + fc.Param("tok") + " fails")
		}
		fc.Writer().WriteHeader(http.StatusNoContent)
	})
	for i, q := range c.Reqs {
		req := httptest.NewRequest("GET", fmt.Sprintf("http://dr.test/bm/r%dq", i), nil)
		req.Header.Set("X-Pad", strings.Repeat("p", q.Pad))
		if q.Panic {
			req.Header.Set("X-Panic", "1")
		}
		w := httptest.NewRecorder()
		f.ServeHTTP(w, req)
		if want := map[bool]int{true: http.StatusInternalServerError, false: http.StatusNoContent}[q.Panic]; w.Code != want {
			fmt.Println("C15-CHILD-ERROR request", i, "answered", w.Code, "want", want)
		}
		_, _ = os.Stdout.WriteString(drMark(i))
		_, _ = os.Stderr.WriteString(drMark(i))
	}
}

// checkDefaultRecovery runs the sequence in a child process and reads what was printed while each request was served: a
// record for a request whose handler panicked, about that request and no other; nothing for the others.
func checkDefaultRecovery(c *DRCase) error {
	raw, _ := json.Marshal(c)
	cmd := exec.Command(os.Args[0], "-test.run=^$")
	cmd.Env = append(os.Environ(), "C15_DR_CASE="+string(raw))
	var so, se bytes.Buffer
	cmd.Stdout, cmd.Stderr = &so, &se
	if err := cmd.Run(); err != nil {
		return fmt.Errorf("default recovery: child process failed: %v: %.300s", err, se.String())
	}
	if strings.Contains(so.String(), "C15-CHILD-ERROR") {
		return fmt.Errorf("default recovery: %.300s", so.String()[strings.Index(so.String(), "C15-CHILD-ERROR"):])
	}
	outs, errs := so.String(), se.String()
	for i, q := range c.Reqs {
		var seg string
		for _, stream := range []*string{&outs, &errs} {
			k := strings.Index(*stream, drMark(i))
			if k < 0 {
				return fmt.Errorf("default recovery: the marker of request %d is missing from the child's output", i)
			}
			seg += (*stream)[:k]
			*stream = (*stream)[k+len(drMark(i)):]
		}
		own := fmt.Sprintf("/bm/r%dq", i)
		if !q.Panic {
			if strings.TrimSpace(seg) != "" {
				return fmt.Errorf("default recovery: request %d (%s, %d-byte header) did not panic, yet %d bytes were printed while it was served: %.200q", i, own, q.Pad, len(seg), seg)
			}
			continue
		}
		if !strings.Contains(seg, own) {
			return fmt.Errorf("default recovery: the handler of request %d (%s, %d-byte header) panicked, what was printed meanwhile (%d bytes) does not name it: %.200q", i, own, q.Pad, len(seg), seg)
		}
		for j := range c.Reqs {
			if other := fmt.Sprintf("/bm/r%dq", j); j != i && strings.Contains(seg, other) {
				return fmt.Errorf("default recovery: the record printed for the panic of request %d (%s, %d-byte header; %d bytes printed) names request %d (%s, %d-byte header)", i, own, q.Pad, len(seg), j, other, c.Reqs[j].Pad)
			}
		}
		if n := strings.Count(seg, own+" HTTP/1.1"); n != 1 {
			return fmt.Errorf("default recovery: the record printed for the panic of request %d holds its request line %d times (%d bytes printed)", i, n, len(seg))
		}
	}
	return nil
}

func TestDefaultRecovery(t *testing.T) {
	rapid.Check(t, func(t *rapid.T) {
		c := &DRCase{}
		big := false
		for i, n := 0, gen.IntR(t, 2, 12, "nreq"); i < n; i++ {
			q := DRReq{Pad: gen.Pick(t, []int{0, 3, 900, 12000, 17000, 40000}, "pad"), Panic: gen.Chance(t, 2, 3, "panic")}
			big = big || (q.Panic && q.Pad > 16000)
			c.Reqs = append(c.Reqs, q)
		}
		stats.EvalN(len(c.Reqs))
		stats.Sample(c)
		stats.Class("default-handler-output-read-from-a-child-process")
		if big {
			stats.NonTrivial(fmt.Sprintf("dr|%+v", c.Reqs))
		}
		if err := checkDefaultRecovery(c); err != nil {
			stats.Fail("default-recovery", c, "%v", err)
			t.Fatalf("%v", err)
		}
	})
}
