package ref

import "strings"

// ValidPattern is the documented pattern grammar (property C10), written as a
// split-based recogniser that shares nothing with fox's single-pass parser:
//
//	pattern  = [host] "/" segment *( "/" segment )
//	segment  = *static [ "{" name "}" | "*{" name "}" ]      wildcard only at the end
//	host     = label *( "." label )                           no empty label
//	label    = *ldh [ "{" name "}" ]                          no catch-all
//
// name is non-empty, at most maxKey bytes, without '{' '}' '*' '/' (and without
// '.' in a host); a segment that is exactly a catch-all may not directly follow a
// segment ending in a catch-all; at most maxParams wildcards. The static part of a
// label is letters, digits and '-', neither starting nor ending with '-', at most
// 63 bytes; static bytes plus dots at most 255; and the host needs at least one
// letter, hyphen or parameter.
func ValidPattern(p string, maxParams, maxKey int) bool {
	i := strings.IndexByte(p, '/')
	if i < 0 {
		return false
	}
	n := 0
	if i > 0 {
		ok, c := validHost(p[:i], maxKey)
		if !ok {
			return false
		}
		n += c
	}
	prevCatch := false
	for _, s := range strings.Split(p[i+1:], "/") {
		kind, ok := validPart(s, maxKey, "")
		if !ok {
			return false
		}
		if kind != 0 {
			n++
		}
		if kind == 2 && prevCatch && s[0] == '*' {
			return false
		}
		prevCatch = kind == 2
	}
	return n <= maxParams
}

// validPart: static* [wildcard]; kind 0 none, 1 parameter, 2 catch-all.
func validPart(s string, maxKey int, forbid string) (int, bool) {
	o := strings.IndexAny(s, "{*")
	if o < 0 {
		return 0, true
	}
	kind := 1
	rest := s[o:]
	if rest[0] == '*' {
		kind = 2
		rest = rest[1:]
		if rest == "" || rest[0] != '{' {
			return 0, false
		}
	}
	if !strings.HasSuffix(rest, "}") || len(rest) < 2 {
		return 0, false
	}
	name := rest[1 : len(rest)-1]
	if name == "" || len(name) > maxKey || strings.ContainsAny(name, "{}*/"+forbid) {
		return 0, false
	}
	return kind, true
}

func validHost(h string, maxKey int) (bool, int) {
	n, total := 0, 0
	nonNumeric := false
	for li, l := range strings.Split(h, ".") {
		if l == "" {
			return false, 0
		}
		kind, ok := validPart(l, maxKey, ".")
		if !ok || kind == 2 {
			return false, 0
		}
		st := l
		if kind == 1 {
			st = l[:strings.IndexByte(l, '{')]
			n++
			nonNumeric = true
		}
		for _, c := range []byte(st) {
			switch {
			case 'a' <= c && c <= 'z' || 'A' <= c && c <= 'Z' || c == '-':
				nonNumeric = true
			case '0' <= c && c <= '9':
			default:
				return false, 0
			}
		}
		if strings.HasPrefix(st, "-") || strings.HasSuffix(st, "-") || len(st) > 63 {
			return false, 0
		}
		total += len(st)
		if li > 0 {
			total++
		}
	}
	if !nonNumeric || total > 255 {
		return false, 0
	}
	return true, n
}

// Wildcard is one wildcard token of a pattern.
type Wildcard struct {
	Start, End int // pattern[Start:End] is "{name}" or "*{name}"
	Name       string
	CatchAll   bool
	InHost     bool
}

// Wildcards lists the wildcard tokens of a (valid) pattern in order.
func Wildcards(p string) []Wildcard {
	var out []Wildcard
	hostEnd := strings.IndexByte(p, '/')
	for i := 0; i < len(p); i++ {
		if p[i] != '{' && p[i] != '*' {
			continue
		}
		e := strings.IndexByte(p[i:], '}')
		if e < 0 {
			break
		}
		e += i
		w := Wildcard{Start: i, End: e + 1, InHost: i < hostEnd}
		if p[i] == '*' {
			w.CatchAll = true
			w.Name = p[i+2 : e]
		} else {
			w.Name = p[i+1 : e]
		}
		out = append(out, w)
		i = e
	}
	return out
}
