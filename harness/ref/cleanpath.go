// Package ref holds the independent reference implementations used as oracles.
// Nothing in here shares code or data structures with fox.
package ref

import "strings"

// CleanPath is the lexical definition from property C17: split on '/', drop
// empty and "." elements, let ".." pop the previous element (never above the
// root), re-join rooted, and keep a trailing slash exactly when the input ended
// with a slash or a "." element and the result is not the root.
func CleanPath(p string) string {
	if p == "" {
		return "/"
	}
	elems := strings.Split(p, "/")
	var st []string
	for _, e := range elems {
		switch e {
		case "", ".":
		case "..":
			if len(st) > 0 {
				st = st[:len(st)-1]
			}
		default:
			st = append(st, e)
		}
	}
	res := "/" + strings.Join(st, "/")
	if (strings.HasSuffix(p, "/") || elems[len(elems)-1] == ".") && res != "/" {
		res += "/"
	}
	return res
}
