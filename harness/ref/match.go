package ref

import "strings"

// Param is one captured wildcard value.
type Param struct{ Key, Value string }

// Leading-slash policy for catch-all values. README documents that a suffix
// mid-segment catch-all may capture a value starting with '/'
// (/src/file=*{path} <-> /src/file=/dir/x); for infix catch-alls neither the
// documentation nor the properties say. Checks evaluate all three policies and
// do not judge a request on which they disagree.
const (
	SlashNever = iota
	SlashSuffixOnly
	SlashAlways
)

type cand struct {
	r   int // index into patterns
	pos int // position in pattern
	ps  []Param
}

type matcher struct {
	pats    []string
	req     string // host+path
	hb      int    // req[:hb] is the host
	litLast bool   // the last request byte must be consumed by a literal '/' that ends the pattern
	mode    int
	back    int
}

// Match matches host+path against the patterns as a flat list (no tree): at each
// request position it prefers, in this order, static text, a named parameter, a
// catch-all (infix catch-alls try every following '/' left to right, then the
// pattern ending with the catch-all takes the whole non-empty remainder), and
// backtracks when the preferred branch fails. With host == "" only path-only
// patterns take part, otherwise only hostname patterns.
func Match(pats []string, host, path string, litLast bool, mode int) (int, []Param, int) {
	m := &matcher{pats: pats, req: host + path, hb: len(host), litLast: litLast, mode: mode}
	var cs []cand
	for i, p := range pats {
		hostEnd := strings.IndexByte(p, '/')
		if (host == "") != (hostEnd == 0) {
			continue
		}
		cs = append(cs, cand{r: i})
	}
	r, ps := m.walk(cs, 0)
	return r, ps, m.back
}

func (m *matcher) walk(cs []cand, i int) (int, []Param) {
	if len(cs) == 0 {
		return -1, nil
	}
	if i == len(m.req) {
		for _, c := range cs {
			if c.pos == len(m.pats[c.r]) {
				return c.r, c.ps
			}
		}
		return -1, nil
	}
	ch := m.req[i]
	var st, pa, ca []cand
	for _, c := range cs {
		p := m.pats[c.r]
		if c.pos >= len(p) {
			continue
		}
		switch p[c.pos] {
		case '{':
			pa = append(pa, c)
		case '*':
			ca = append(ca, c)
		default:
			if p[c.pos] == ch {
				// a literal '/' in the pattern never matches inside the host and vice versa:
				// the host boundary of pattern and request must coincide
				if (ch == '/') && (i == m.hb) != (c.pos == strings.IndexByte(p, '/')) {
					continue
				}
				st = append(st, cand{c.r, c.pos + 1, c.ps})
			}
		}
	}
	tried := false
	if len(st) > 0 {
		tried = true
		if r, ps := m.walk(st, i+1); r >= 0 {
			return r, ps
		}
	}
	// named parameter: one non-empty segment / host label part
	if len(pa) > 0 {
		delim, end := byte('/'), len(m.req)
		if i < m.hb {
			delim, end = '.', m.hb
		}
		j := i
		for j < end && m.req[j] != delim {
			j++
		}
		if j > i {
			if tried {
				m.back++
			}
			tried = true
			var nx []cand
			for _, c := range pa {
				p := m.pats[c.r]
				e := c.pos + strings.IndexByte(p[c.pos:], '}')
				ps := append(append([]Param{}, c.ps...), Param{p[c.pos+1 : e], m.req[i:j]})
				nx = append(nx, cand{c.r, e + 1, ps})
			}
			if r, ps := m.walk(nx, j); r >= 0 {
				return r, ps
			}
		}
	}
	// catch-all (path only)
	if len(ca) > 0 && i >= m.hb {
		var infix []cand
		var suffix *cand
		mk := func(c cand, j int) cand {
			p := m.pats[c.r]
			e := c.pos + strings.IndexByte(p[c.pos:], '}')
			ps := append(append([]Param{}, c.ps...), Param{p[c.pos+2 : e], m.req[i:j]})
			return cand{c.r, e + 1, ps}
		}
		for k := range ca {
			p := m.pats[ca[k].r]
			e := ca[k].pos + strings.IndexByte(p[ca[k].pos:], '}')
			if e+1 == len(p) {
				suffix = &ca[k]
			} else {
				infix = append(infix, ca[k])
			}
		}
		if len(infix) > 0 && (ch != '/' || m.mode == SlashAlways) {
			for j := i + 1; j < len(m.req); j++ {
				if m.req[j] != '/' {
					continue
				}
				if tried {
					m.back++
				}
				tried = true
				var nx []cand
				for _, c := range infix {
					nx = append(nx, mk(c, j))
				}
				if r, ps := m.walk(nx, j); r >= 0 {
					return r, ps
				}
			}
		}
		if suffix != nil && !m.litLast && (ch != '/' || m.mode != SlashNever) {
			if tried {
				m.back++
			}
			c := mk(*suffix, len(m.req))
			return c.r, c.ps
		}
	}
	return -1, nil
}

// Result of a full lookup for one method.
type Result struct {
	Route        int // index into patterns, -1 if none
	Tsr          bool
	Params       []Param
	Backtracks   int
	HostFallback bool // hostname routes existed and were tried, the answer came from path-only routes
	HostMode     bool // the answer came from hostname routes
}

// Lookup applies the documented lookup order for one method: hostname patterns
// first (when the method has any and the stripped host is not empty), a direct
// match before a trailing-slash match, a trailing-slash match under a matching
// host before the path-only fallback. host must already be stripped (StripHost).
func Lookup(pats []string, host, path string, mode int) Result {
	hasHost := false
	for _, p := range pats {
		if !strings.HasPrefix(p, "/") {
			hasHost = true
			break
		}
	}
	try := func(h string) Result {
		r, ps, b := Match(pats, h, path, false, mode)
		if r >= 0 {
			return Result{Route: r, Params: ps, Backtracks: b}
		}
		if path != "/" && path != "" {
			if strings.HasSuffix(path, "/") {
				if r, ps, b2 := Match(pats, h, path[:len(path)-1], false, mode); r >= 0 {
					return Result{Route: r, Tsr: true, Params: ps, Backtracks: b + b2}
				}
			} else {
				if r, ps, b2 := Match(pats, h, path+"/", true, mode); r >= 0 {
					return Result{Route: r, Tsr: true, Params: ps, Backtracks: b + b2}
				}
			}
		}
		return Result{Route: -1, Backtracks: b}
	}
	if hasHost && host != "" {
		if res := try(host); res.Route >= 0 {
			res.HostMode = true
			return res
		}
		res := try("")
		res.HostFallback = true
		return res
	}
	return try("")
}

// LookupAll evaluates the three leading-slash policies; ok is false when they
// disagree on route or tsr (the request is then not judged).
func LookupAll(pats []string, host, path string) (res Result, ok bool) {
	res = Lookup(pats, host, path, SlashNever)
	for _, mode := range []int{SlashSuffixOnly, SlashAlways} {
		o := Lookup(pats, host, path, mode)
		if o.Route != res.Route || o.Tsr != res.Tsr {
			return res, false
		}
	}
	return res, true
}

// StripHost removes ":port" (numeric) and one trailing dot, as documented for
// request hosts: "h", "h:80", "h.", "h.:80", "[v6]:80" -> v6; a bare "[v6]" has no
// port to remove and is left as it is.
func StripHost(h string) string {
	if h == "" {
		return h
	}
	if strings.HasPrefix(h, "[") {
		if i := strings.LastIndexByte(h, ']'); i > 0 && i+1 < len(h) && h[i+1] == ':' && allDigits(h[i+2:]) {
			h = h[1:i]
		}
		return strings.TrimSuffix(h, ".")
	}
	if i := strings.LastIndexByte(h, ':'); i >= 0 && strings.Count(h, ":") == 1 && allDigits(h[i+1:]) {
		h = h[:i]
	}
	return strings.TrimSuffix(h, ".")
}

func allDigits(s string) bool {
	for i := 0; i < len(s); i++ {
		if s[i] < '0' || s[i] > '9' {
			return false
		}
	}
	return true
}

// CheckParams is the parameter oracle of C01/C10: keys are the pattern's
// wildcard names in pattern order; parameter values are non-empty and contain
// no '/' (no '.' in the host); catch-all values are non-empty; substituting the
// values into the pattern reproduces host+path (host only for hostname
// patterns). It returns "" when all of that holds.
func CheckParams(pat string, ps []Param, host, path string) string {
	var sb strings.Builder
	ws := Wildcards(pat)
	if len(ps) != len(ws) {
		return "parameter count differs from the pattern's wildcard count"
	}
	last := 0
	for k, w := range ws {
		if ps[k].Key != w.Name {
			return "key " + ps[k].Key + " reported where the pattern declares " + w.Name
		}
		v := ps[k].Value
		if v == "" {
			return "empty value for " + w.Name
		}
		if !w.CatchAll && strings.Contains(v, "/") {
			return "named parameter " + w.Name + " spans a '/'"
		}
		if w.InHost && strings.Contains(v, ".") {
			return "host parameter " + w.Name + " spans a '.'"
		}
		sb.WriteString(pat[last:w.Start])
		sb.WriteString(v)
		last = w.End
	}
	sb.WriteString(pat[last:])
	want := path
	if !strings.HasPrefix(pat, "/") {
		want = host + path
	}
	if sb.String() != want {
		return "substituting the values gives " + sb.String() + ", not " + want
	}
	return ""
}

// UniqueSplit reports whether the parameter values are fully determined by the
// request (no catch-all is followed by further pattern text).
func UniqueSplit(pat string) bool {
	for _, w := range Wildcards(pat) {
		if w.CatchAll && w.End != len(pat) {
			return false
		}
	}
	return true
}
