ENTRY = {
    "C14": dict(
        pkg="c14", level="fault_enumeration",
        technique="recording underlying writer as ground truth + exhaustive enumeration of short call sequences x writer capability families x byte limits "
                  "+ rapid random sequences up to length 8 + differential between writers with and without the optional fast paths",
        level_text="TODO",
        level_note="TODO",
        rule="TODO",
        assumptions=[],
        quick=[REPLAY,
               R("exhaustive", "^TestExhaustive$", env={"C14_EXH_LEN": 3, "C14_EXH_CAPLEN": 2}, timeout=600),
               R("random", "^(TestRandom|TestHelpers)$", checks=50000, timeout=600)],
        thorough=[REPLAY,
                  R("exhaustive", "^TestExhaustive$", shards=16, env={"C14_EXH_LEN": 4, "C14_EXH_CAPLEN": 3}, timeout=3000),
                  R("random", "^(TestRandom|TestHelpers)$", checks=100000, shards=16, timeout=3000)],
    ),
}
