ENTRY = {
    "C14": dict(
        pkg="c14", level="fault_enumeration",
        technique="recording underlying http.ResponseWriter as ground truth (codes received, bytes accepted, flush/capability calls) "
                  "+ exhaustive enumeration of short call sequences x 21 writer capability families x byte limits x source fault points "
                  "+ rapid random sequences up to length 8 + differential between sibling writers that differ only in the optional fast paths",
        level_text="Call sequences on c.Writer() (WriteHeader with informational, 101, final and repeated codes; Write; WriteString; ReadFrom; "
                   "FlushError; Push; deadlines; EnableFullDuplex; Hijack anywhere - what follows a Hijack that failed, for want of the capability or because the underlying Hijack "
                   "returned an error, is judged like any other call) are run inside a handler during ServeHTTP on a fresh router, in a fifth of the cases inside a second router that the "
                   "first router's handler enters with its own c.Writer() (the outer writer must then tell the same truth). The "
                   "underlying writer is a recording writer from 21 concrete types (plain, each single capability, ReaderFrom combined with "
                   "Flusher/FlushError/StringWriter, all, all but one) that accepts at most k body bytes in total (k in {0,1,3,6,unlimited}); ReadFrom "
                   "sources yield j bytes and then end or fail (j from 0, error with or after the last bytes, 1-2 bytes per Read). After EVERY call "
                   "Status/Size/Written are compared with what the recording writer really received, together with: at most one final status, none "
                   "after an accepted body byte, accepted bytes equal to the prefix of everything offered, first header call forwarded exactly once, "
                   "capability calls delegated once with the same arguments and result or answered with an error matching http.ErrNotSupported. The same "
                   "sequence is re-run on every sibling family that differs only in ReaderFrom / StringWriter / Flush-vs-FlushError and the per-step answers, "
                   "delivered bytes and effective status must be equal. All sequences up to the length in notes over a 13-symbol alphabet are enumerated for "
                   "all families and limits {0,1,3,unlimited}; longer sequences are sampled. String/Blob/Stream/Redirect are checked on the same writers "
                   "for status, Content-Type (Blob, Stream), bytes, Location and the 300..308 guard.",
        level_note="The fault points are those of the model writer (a total byte budget; once full it stays full) and of the model source; a writer that fails and "
                   "later recovers is not modelled. Not judged, because the property does not state it: the n/err values returned by Write/WriteString/ReadFrom, "
                   "whether FlushError forwards a header before flushing (only that Flusher and FlushError writers agree), what happens to header calls that arrive "
                   "after the response is written other than 'no second final status', the Content-Type chosen by String, the body written by Redirect, anything "
                   "after a successful Hijack. One differential corner is excluded and counted: first body bytes arriving through ReadFrom at a writer that "
                   "accepts zero bytes (the fallback necessarily forwards a header before the failing write, the fast path cannot); both runs are still "
                   "judged against their own ground truth. Env knob C14_NO_READFROM=1 (sensitivity experiments only) removes ReadFrom/Stream from the generators.",
        level_more='Later additions: a second router entered with c.Writer() (stacked recorders), helper calls on contexts from CloneWith and Router.Lookup, all redirect codes 298-310, multi-valued and foreign-owned Content-Type presets, failed Hijack, and a failed flush that must not be reported as success when the underlying writer offers FlushError.',
        rule="cases: (writer family, byte limit, capability-error flag, call sequence with arguments) and (writer family, limit, helper call); non-trivial = the "
             "sequence contains a ReadFrom, or a write the underlying writer only partly accepted, or a failing source, or a header call after an accepted body "
             "byte (helpers: Stream, or a partly accepted body); distinct by the JSON of the case",
        assumptions=["the underlying writer is a conforming http.ResponseWriter whose Write/ReadFrom report the number of bytes they accepted",
                     "'forwarded' means an explicit WriteHeader call on the underlying writer; a body byte accepted without such a call implies status 200",
                     "handler uses the writer from one goroutine and not after Hijack succeeded"],
        quick=[REPLAY,
               R("exhaustive", "^TestExhaustive$", env={"C14_EXH_LEN": 3, "C14_EXH_CAPLEN": 2}, timeout=600),
               R("random", "^(TestRandom|TestHelpers)$", checks=50000, timeout=600)],
        thorough=[REPLAY,
                  R("exhaustive", "^TestExhaustive$", shards=16, env={"C14_EXH_LEN": 4, "C14_EXH_CAPLEN": 3}, timeout=3000),
                  R("random", "^(TestRandom|TestHelpers)$", checks=150000, shards=16, timeout=3000)],
    ),
}
