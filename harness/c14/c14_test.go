// C14 — ResponseWriter status, size and written flag reflect what was really sent.
//
// Ground truth is a recording http.ResponseWriter written here (codes received, bytes accepted in order, flush and
// capability calls seen). A call sequence is run INSIDE a fox handler on c.Writer(); after every call the three answers
// Status/Size/Written are compared with what the recording writer really received, and the same sequence is re-run on
// sibling writers that differ only in the optional fast paths (io.ReaderFrom, io.StringWriter, Flush vs FlushError).
package c14

import (
	"bufio"
	"bytes"
	"encoding/json"
	"errors"
	"fmt"
	"io"
	"log"
	"net"
	"net/http"
	"net/http/httptest"
	"os"
	"strings"
	"testing"
	"time"

	"github.com/tigerwill90/fox"
	"pgregory.net/rapid"

	"verif/gen"
	"verif/stats"
)

func TestMain(m *testing.M) {
	stats.Init("C14")
	log.SetOutput(io.Discard) // fox logs every superfluous WriteHeader
	if err := selfTestFamilies(); err != nil {
		fmt.Println("c14: harness self-test failed:", err)
		os.Exit(2)
	}
	stats.RegisterReplay("writer", func(raw json.RawMessage) error {
		var c Case
		if err := json.Unmarshal(raw, &c); err != nil {
			return err
		}
		return checkCase(&c, false)
	})
	stats.RegisterReplay("helper", func(raw json.RawMessage) error {
		var c HelperCase
		if err := json.Unmarshal(raw, &c); err != nil {
			return err
		}
		return checkHelper(&c, false)
	})
	os.Exit(stats.Finish(m.Run()))
}

func TestReplay(t *testing.T) { stats.RunReplays(t) }

var noReadFrom = os.Getenv("C14_NO_READFROM") == "1" // sensitivity aid: keeps the known ReadFrom defect out of the way

// ---------------------------------------------------------------------------------------------------------------------
// recording writer (ground truth)
// ---------------------------------------------------------------------------------------------------------------------

var (
	errFull   = errors.New("c14: underlying writer accepts no more bytes")
	errSource = errors.New("c14: source failed")
	errCap    = errors.New("c14: capability error of the underlying writer")
)

type capCall struct {
	name   string
	when   time.Time
	target string
	opts   *http.PushOptions
}

// core is the http.ResponseWriter proper; the optional interfaces are added by the mixins below.
type core struct {
	hdr       http.Header
	codes     []int // every WriteHeader code received, in order
	codeAt    []int // number of body bytes already accepted when that code arrived
	body      []byte
	limit     int // total number of body bytes accepted; <0 = unlimited
	capErr    error
	nFlush    int // Flush() calls
	nFlushErr int // FlushError() calls
	caps      []capCall
	conn      net.Conn
	brw       *bufio.ReadWriter
}

func (c *core) Header() http.Header { return c.hdr }

func (c *core) WriteHeader(code int) {
	c.codes = append(c.codes, code)
	c.codeAt = append(c.codeAt, len(c.body))
}

// accept takes as many bytes as the limit allows; a short acceptance is an error, as io.Writer demands.
func (c *core) accept(p []byte) (int, error) {
	room := len(p)
	if c.limit >= 0 && c.limit-len(c.body) < room {
		room = c.limit - len(c.body)
	}
	c.body = append(c.body, p[:room]...)
	if room < len(p) {
		return room, errFull
	}
	return room, nil
}

func (c *core) Write(p []byte) (int, error) { return c.accept(p) }

func isFinal(code int) bool { return code < 100 || code > 199 || code == http.StatusSwitchingProtocols }

func (c *core) finals() []int {
	var f []int
	for _, code := range c.codes {
		if isFinal(code) {
			f = append(f, code)
		}
	}
	return f
}

// truth: what Status/Size/Written have to say according to the property.
func (c *core) truth() obs {
	o := obs{Status: http.StatusOK, Size: len(c.body)}
	if f := c.finals(); len(f) > 0 {
		o.Status = f[0]
		o.Written = true
	}
	if len(c.body) > 0 {
		o.Written = true
	}
	return o
}

// effective final status as a client would see it (a body byte without header implies 200; 0 = nothing sent).
func (c *core) effective() int {
	if f := c.finals(); len(f) > 0 {
		return f[0]
	}
	if len(c.body) > 0 {
		return http.StatusOK
	}
	return 0
}

type mRF struct{ c *core }

// ReadFrom copies like io.Copy does: bytes are accepted under the same limit, the result is (bytes accepted, error of
// the writer limit or of the source).
func (m mRF) ReadFrom(src io.Reader) (n int64, err error) {
	var buf [4]byte
	for {
		nr, er := src.Read(buf[:])
		if nr > 0 {
			nw, ew := m.c.accept(buf[:nr])
			n += int64(nw)
			if ew != nil {
				return n, ew
			}
		}
		if er != nil {
			if er == io.EOF {
				return n, nil
			}
			return n, er
		}
	}
}

type mSW struct{ c *core }

func (m mSW) WriteString(s string) (int, error) { return m.c.accept([]byte(s)) }

type mFL struct{ c *core }

func (m mFL) Flush() { m.c.nFlush++ }

type mFE struct{ c *core }

func (m mFE) FlushError() error { m.c.nFlushErr++; return m.c.capErr }

type mHJ struct{ c *core }

func (m mHJ) Hijack() (net.Conn, *bufio.ReadWriter, error) {
	m.c.caps = append(m.c.caps, capCall{name: "hijack"})
	if m.c.capErr != nil {
		return nil, nil, m.c.capErr
	}
	return m.c.conn, m.c.brw, nil
}

type mPU struct{ c *core }

func (m mPU) Push(target string, opts *http.PushOptions) error {
	m.c.caps = append(m.c.caps, capCall{name: "push", target: target, opts: opts})
	return m.c.capErr
}

type mDL struct{ c *core }

func (m mDL) SetReadDeadline(t time.Time) error {
	m.c.caps = append(m.c.caps, capCall{name: "rdeadline", when: t})
	return m.c.capErr
}
func (m mDL) SetWriteDeadline(t time.Time) error {
	m.c.caps = append(m.c.caps, capCall{name: "wdeadline", when: t})
	return m.c.capErr
}

type mFD struct{ c *core }

func (m mFD) EnableFullDuplex() error {
	m.c.caps = append(m.c.caps, capCall{name: "duplex"})
	return m.c.capErr
}

// Go interfaces are static: one concrete type per capability combination.
type (
	wPlain struct{ *core }
	wRF    struct {
		*core
		mRF
	}
	wFL struct {
		*core
		mFL
	}
	wFE struct {
		*core
		mFE
	}
	wSW struct {
		*core
		mSW
	}
	wHJ struct {
		*core
		mHJ
	}
	wPU struct {
		*core
		mPU
	}
	wDL struct {
		*core
		mDL
	}
	wFD struct {
		*core
		mFD
	}
	wRFFL struct {
		*core
		mRF
		mFL
	}
	wRFFE struct {
		*core
		mRF
		mFE
	}
	wRFSW struct {
		*core
		mRF
		mSW
	}
	wAll struct {
		*core
		mRF
		mSW
		mFL
		mFE
		mHJ
		mPU
		mDL
		mFD
	}
	wAllNoRF struct {
		*core
		mSW
		mFL
		mFE
		mHJ
		mPU
		mDL
		mFD
	}
	wAllNoSW struct {
		*core
		mRF
		mFL
		mFE
		mHJ
		mPU
		mDL
		mFD
	}
	wAllNoFlush struct {
		*core
		mRF
		mSW
		mHJ
		mPU
		mDL
		mFD
	}
	wAllNoFE struct { // plain http.Flusher among all the others
		*core
		mRF
		mSW
		mFL
		mHJ
		mPU
		mDL
		mFD
	}
	wAllNoHJ struct {
		*core
		mRF
		mSW
		mFL
		mFE
		mPU
		mDL
		mFD
	}
	wAllNoPU struct {
		*core
		mRF
		mSW
		mFL
		mFE
		mHJ
		mDL
		mFD
	}
	wAllNoDL struct {
		*core
		mRF
		mSW
		mFL
		mFE
		mHJ
		mPU
		mFD
	}
	wAllNoFD struct {
		*core
		mRF
		mSW
		mFL
		mFE
		mHJ
		mPU
		mDL
	}
)

type family struct {
	Name                           string
	rf, sw, fl, fe, hj, pu, dl, fd bool
	mk                             func(c *core) http.ResponseWriter
}

func (f *family) flush() bool { return f.fl || f.fe }

var families = []*family{
	{Name: "plain", mk: func(c *core) http.ResponseWriter { return wPlain{c} }},
	{Name: "rf", rf: true, mk: func(c *core) http.ResponseWriter { return wRF{c, mRF{c}} }},
	{Name: "flusher", fl: true, mk: func(c *core) http.ResponseWriter { return wFL{c, mFL{c}} }},
	{Name: "flusherror", fe: true, mk: func(c *core) http.ResponseWriter { return wFE{c, mFE{c}} }},
	{Name: "stringwriter", sw: true, mk: func(c *core) http.ResponseWriter { return wSW{c, mSW{c}} }},
	{Name: "hijacker", hj: true, mk: func(c *core) http.ResponseWriter { return wHJ{c, mHJ{c}} }},
	{Name: "pusher", pu: true, mk: func(c *core) http.ResponseWriter { return wPU{c, mPU{c}} }},
	{Name: "deadlines", dl: true, mk: func(c *core) http.ResponseWriter { return wDL{c, mDL{c}} }},
	{Name: "fullduplex", fd: true, mk: func(c *core) http.ResponseWriter { return wFD{c, mFD{c}} }},
	{Name: "rf+flusher", rf: true, fl: true, mk: func(c *core) http.ResponseWriter { return wRFFL{c, mRF{c}, mFL{c}} }},
	{Name: "rf+flusherror", rf: true, fe: true, mk: func(c *core) http.ResponseWriter { return wRFFE{c, mRF{c}, mFE{c}} }},
	{Name: "rf+stringwriter", rf: true, sw: true, mk: func(c *core) http.ResponseWriter { return wRFSW{c, mRF{c}, mSW{c}} }},
	{Name: "all", rf: true, sw: true, fl: true, fe: true, hj: true, pu: true, dl: true, fd: true,
		mk: func(c *core) http.ResponseWriter {
			return wAll{c, mRF{c}, mSW{c}, mFL{c}, mFE{c}, mHJ{c}, mPU{c}, mDL{c}, mFD{c}}
		}},
	{Name: "all-but-rf", sw: true, fl: true, fe: true, hj: true, pu: true, dl: true, fd: true,
		mk: func(c *core) http.ResponseWriter {
			return wAllNoRF{c, mSW{c}, mFL{c}, mFE{c}, mHJ{c}, mPU{c}, mDL{c}, mFD{c}}
		}},
	{Name: "all-but-stringwriter", rf: true, fl: true, fe: true, hj: true, pu: true, dl: true, fd: true,
		mk: func(c *core) http.ResponseWriter {
			return wAllNoSW{c, mRF{c}, mFL{c}, mFE{c}, mHJ{c}, mPU{c}, mDL{c}, mFD{c}}
		}},
	{Name: "all-but-flush", rf: true, sw: true, hj: true, pu: true, dl: true, fd: true,
		mk: func(c *core) http.ResponseWriter {
			return wAllNoFlush{c, mRF{c}, mSW{c}, mHJ{c}, mPU{c}, mDL{c}, mFD{c}}
		}},
	{Name: "all-but-flusherror", rf: true, sw: true, fl: true, hj: true, pu: true, dl: true, fd: true,
		mk: func(c *core) http.ResponseWriter {
			return wAllNoFE{c, mRF{c}, mSW{c}, mFL{c}, mHJ{c}, mPU{c}, mDL{c}, mFD{c}}
		}},
	{Name: "all-but-hijacker", rf: true, sw: true, fl: true, fe: true, pu: true, dl: true, fd: true,
		mk: func(c *core) http.ResponseWriter {
			return wAllNoHJ{c, mRF{c}, mSW{c}, mFL{c}, mFE{c}, mPU{c}, mDL{c}, mFD{c}}
		}},
	{Name: "all-but-pusher", rf: true, sw: true, fl: true, fe: true, hj: true, dl: true, fd: true,
		mk: func(c *core) http.ResponseWriter {
			return wAllNoPU{c, mRF{c}, mSW{c}, mFL{c}, mFE{c}, mHJ{c}, mDL{c}, mFD{c}}
		}},
	{Name: "all-but-deadlines", rf: true, sw: true, fl: true, fe: true, hj: true, pu: true, fd: true,
		mk: func(c *core) http.ResponseWriter {
			return wAllNoDL{c, mRF{c}, mSW{c}, mFL{c}, mFE{c}, mHJ{c}, mPU{c}, mFD{c}}
		}},
	{Name: "all-but-fullduplex", rf: true, sw: true, fl: true, fe: true, hj: true, pu: true, dl: true,
		mk: func(c *core) http.ResponseWriter {
			return wAllNoFD{c, mRF{c}, mSW{c}, mFL{c}, mFE{c}, mHJ{c}, mPU{c}, mDL{c}}
		}},
}

func familyByName(name string) *family {
	for _, f := range families {
		if f.Name == name {
			return f
		}
	}
	return nil
}

// twins are the families that differ from f only in the optional fast paths (ReaderFrom, StringWriter, and Flush versus
// FlushError as the way to flush): the property says the answers do not depend on those.
func twins(f *family) []*family {
	var out []*family
	for _, g := range families {
		if g != f && g.flush() == f.flush() && g.hj == f.hj && g.pu == f.pu && g.dl == f.dl && g.fd == f.fd {
			out = append(out, g)
		}
	}
	return out
}

// selfTestFamilies makes sure every concrete type offers exactly the interfaces its descriptor claims.
func selfTestFamilies() error {
	for _, f := range families {
		w := f.mk(&core{hdr: http.Header{}})
		_, rf := w.(io.ReaderFrom)
		_, sw := w.(io.StringWriter)
		_, fl := w.(http.Flusher)
		_, fe := w.(interface{ FlushError() error })
		_, hj := w.(http.Hijacker)
		_, pu := w.(http.Pusher)
		_, rd := w.(interface{ SetReadDeadline(time.Time) error })
		_, wd := w.(interface{ SetWriteDeadline(time.Time) error })
		_, fd := w.(interface{ EnableFullDuplex() error })
		got := [9]bool{rf, sw, fl, fe, hj, pu, rd, wd, fd}
		want := [9]bool{f.rf, f.sw, f.fl, f.fe, f.hj, f.pu, f.dl, f.dl, f.fd}
		if got != want {
			return fmt.Errorf("family %s implements %v, descriptor says %v", f.Name, got, want)
		}
	}
	return nil
}

// source is the reader handed to ReadFrom / Stream.
type source struct {
	data    []byte
	fail    bool // ends with errSource instead of io.EOF
	chunk   int  // at most chunk bytes per Read (0 = everything)
	errWith bool // the final error is returned together with the last bytes
	pos     int
}

func (s *source) end() error {
	if s.fail {
		return errSource
	}
	return io.EOF
}

func (s *source) Read(p []byte) (int, error) {
	if s.pos >= len(s.data) {
		return 0, s.end()
	}
	n := len(s.data) - s.pos
	if s.chunk > 0 && n > s.chunk {
		n = s.chunk
	}
	if n > len(p) {
		n = len(p)
	}
	copy(p, s.data[s.pos:s.pos+n])
	s.pos += n
	if s.errWith && s.pos == len(s.data) {
		return n, s.end()
	}
	return n, nil
}

// ---------------------------------------------------------------------------------------------------------------------
// case and oracle for call sequences
// ---------------------------------------------------------------------------------------------------------------------

const (
	opHeader      = "WriteHeader"
	opWrite       = "Write"
	opWriteString = "WriteString"
	opReadFrom    = "ReadFrom"
	opFlush       = "FlushError"
	opPush        = "Push"
	opRDeadline   = "SetReadDeadline"
	opWDeadline   = "SetWriteDeadline"
	opDuplex      = "EnableFullDuplex"
	opHijack      = "Hijack"
)

type Call struct {
	Op      string `json:"op"`
	Code    int    `json:"code,omitempty"`     // WriteHeader; for the deadline calls 1 = the zero time (clear the deadline)
	Data    string `json:"data,omitempty"`     // Write/WriteString: the bytes; ReadFrom: the bytes the source yields
	Fail    bool   `json:"fail,omitempty"`     // ReadFrom: after Data the source fails instead of reporting EOF
	Chunk   int    `json:"chunk,omitempty"`    // ReadFrom: bytes per Read call of the source (0 = all at once)
	ErrWith bool   `json:"err_with,omitempty"` // ReadFrom: the source returns its final error together with the last bytes
}

func (c Call) String() string {
	switch c.Op {
	case opHeader:
		return fmt.Sprintf("WriteHeader(%d)", c.Code)
	case opWrite, opWriteString:
		return fmt.Sprintf("%s(%q)", c.Op, c.Data)
	case opReadFrom:
		end := "EOF"
		if c.Fail {
			end = "error"
		}
		return fmt.Sprintf("ReadFrom(source yielding %q then %s)", c.Data, end)
	}
	if (c.Op == opRDeadline || c.Op == opWDeadline) && c.Code == 1 {
		return c.Op + "(zero time)"
	}
	return c.Op + "()"
}

type Case struct {
	Writer string `json:"writer"`  // family of the underlying writer
	Limit  int    `json:"limit"`   // the underlying writer accepts this many body bytes in total, -1 = unlimited
	CapErr bool   `json:"cap_err"` // capability methods of the underlying writer return an error (to be propagated)
	Calls  []Call `json:"calls"`
	// Prior: what the handler of an earlier request did on the same router, against a fully capable writer, before the judged
	// request ("" = nothing came before). Contexts and their writers are recycled; the judged writer is whichever one the
	// router hands to the handler, and the statement holds for it regardless of what it was used for before.
	Prior string `json:"prior,omitempty"`
	// Reenter: the judged handler belongs to a second router that the first router's handler enters with its own
	// c.Writer() (a mounted sub-router). The calls are made on the inner writer and judged there; when the inner router
	// returns, the outer c.Writer() must report the same truth about the one underlying writer.
	Reenter bool `json:"reenter,omitempty"`
}

var priors = []string{"", "", "hijack", "body", "flush", "readfrom", "informational"}

func (c *Case) prefix(i int) string {
	var sb strings.Builder
	fmt.Fprintf(&sb, "underlying writer %q accepting ", c.Writer)
	if c.Limit < 0 {
		sb.WriteString("any number of bytes")
	} else {
		fmt.Fprintf(&sb, "%d byte(s)", c.Limit)
	}
	if c.Prior != "" {
		fmt.Fprintf(&sb, "; an earlier request on the router did %q on its writer", c.Prior)
	}
	if c.Reenter {
		sb.WriteString("; the handler runs in a second router entered with the first router's c.Writer()")
	}
	sb.WriteString("; calls on c.Writer(): ")
	for k := 0; k <= i && k < len(c.Calls); k++ {
		if k > 0 {
			sb.WriteString(", ")
		}
		sb.WriteString(c.Calls[k].String())
	}
	return sb.String()
}

type obs struct {
	Status  int
	Size    int
	Written bool
}

func (o obs) String() string {
	return fmt.Sprintf("Status=%d Size=%d Written=%v", o.Status, o.Size, o.Written)
}

type feats struct {
	readFrom, partial, failingSource, emptySource, headerAfterBody, repeatedFinal, info, switching, flushFirst, capCall bool
}

type runResult struct {
	co     *core
	obs    []obs // after each judged call
	judged int
	ft     feats
	// index of the first call at which a ReaderFrom / non-ReaderFrom pair may legitimately part (-1 = never)
	rfCorner int
	// Reenter only: the sequence reached that corner between the two stacked writers; judging stopped there
	reenterCorner bool
}

func newCore(limit int, capErr bool) (*core, func()) {
	co := &core{hdr: http.Header{}, limit: limit}
	if capErr {
		co.capErr = errCap
	}
	a, b := net.Pipe()
	co.conn = a
	co.brw = bufio.NewReadWriter(bufio.NewReader(a), bufio.NewWriter(a))
	return co, func() { a.Close(); b.Close() }
}

// invariants of the underlying writer plus the three answers, after any call.
func judgeState(w fox.ResponseWriter, co *core, offered []byte) error {
	f := co.finals()
	if len(f) > 1 {
		return fmt.Errorf("the underlying writer received more than one final status: %v (all codes received: %v)", f, co.codes)
	}
	for i, code := range co.codes {
		if isFinal(code) && co.codeAt[i] > 0 {
			return fmt.Errorf("final status %d was forwarded after the underlying writer had accepted %d body byte(s)", code, co.codeAt[i])
		}
	}
	want := offered
	if co.limit >= 0 && len(want) > co.limit {
		want = want[:co.limit]
	}
	if !bytes.Equal(co.body, want) {
		return fmt.Errorf("the underlying writer accepted body %q, but the bytes offered so far are %q (expected %q)", co.body, offered, want)
	}
	got := obs{w.Status(), w.Size(), w.Written()}
	if tr := co.truth(); got != tr {
		return fmt.Errorf("c.Writer() reports %v, but the underlying writer received status codes %v and accepted %d body byte(s) %q, so it must report %v",
			got, co.codes, len(co.body), co.body, tr)
	}
	return nil
}

func runSeq(fam *family, c *Case) (res *runResult, err error) {
	defer func() {
		if r := recover(); r != nil {
			err = fmt.Errorf("%s: panic: %v", c.prefix(len(c.Calls)), r)
		}
	}()
	co, done := newCore(c.Limit, c.CapErr)
	defer done()
	res = &runResult{co: co, rfCorner: -1}
	under := fam.mk(co)
	f, e := fox.New()
	if e != nil {
		return nil, fmt.Errorf("fox.New: %v", e)
	}
	ran := false
	var herr error
	var offered []byte
	handler := func(fc fox.Context) {
		ran = true
		w := fc.Writer()
		if e := judgeState(w, co, offered); e != nil {
			herr = fmt.Errorf("underlying writer %q before any call: %v", fam.Name, e)
			return
		}
		for i, call := range c.Calls {
			before := co.truth()
			nCodes, nFlush, nFlushErr, nCaps := len(co.codes), co.nFlush, co.nFlushErr, len(co.caps)
			bad := func(format string, a ...any) {
				herr = fmt.Errorf("%s: after the last call: %s", c.prefix(i), fmt.Sprintf(format, a...))
			}
			// delegated reports what is wrong with a capability call, "" when fine
			delegated := func(name string, supported bool, err error, sameArgs func(capCall) bool) string {
				seen := co.caps[nCaps:]
				if !supported {
					if !errors.Is(err, http.ErrNotSupported) {
						return fmt.Sprintf("%s on a writer without that capability returned %v, want an error matching http.ErrNotSupported", name, err)
					}
					return ""
				}
				if len(seen) != 1 || seen[0].name != name || !sameArgs(seen[0]) {
					return fmt.Sprintf("%s was not delegated once with the same arguments (the underlying writer saw %d capability call(s): %+v)", name, len(seen), seen)
				}
				if err != co.capErr {
					return fmt.Sprintf("%s returned %v, the underlying writer returned %v", name, err, co.capErr)
				}
				return ""
			}
			anyArgs := func(capCall) bool { return true }
			stop := false
			switch call.Op {
			case opHeader:
				if isFinal(call.Code) {
					if before.Written {
						res.ft.repeatedFinal = true
					}
					if call.Code == http.StatusSwitchingProtocols {
						res.ft.switching = true
					}
				} else if !before.Written {
					res.ft.info = true
				}
				if before.Size > 0 {
					res.ft.headerAfterBody = true
				}
				w.WriteHeader(call.Code)
				if !before.Written {
					// nothing final was sent yet: the code has to reach the underlying writer, exactly once
					if got := co.codes[nCodes:]; len(got) != 1 || got[0] != call.Code {
						bad("WriteHeader(%d) on a response without final header and body: the underlying writer received %v", call.Code, got)
						return
					}
				}
			case opWrite:
				offered = append(offered, call.Data...)
				_, _ = w.Write([]byte(call.Data))
			case opWriteString:
				offered = append(offered, call.Data...)
				_, _ = w.WriteString(call.Data)
			case opReadFrom:
				res.ft.readFrom = true
				if call.Fail {
					res.ft.failingSource = true
				}
				if call.Data == "" && !call.Fail {
					res.ft.emptySource = true
				}
				if !before.Written && call.Data != "" && c.Limit == 0 && res.rfCorner < 0 {
					res.rfCorner = i
					if c.Reenter {
						// the corner described by cornerReason, met between the two stacked writers: the inner one takes the fast path
						// into the outer one, whose fallback forwards a header ahead of the refused bytes. Not judged (see there).
						res.reenterCorner = true
						return
					}
				}
				offered = append(offered, call.Data...)
				_, _ = w.ReadFrom(&source{data: []byte(call.Data), fail: call.Fail, chunk: call.Chunk, errWith: call.ErrWith})
			case opFlush:
				if !before.Written {
					res.ft.flushFirst = true
				}
				err := w.FlushError()
				d1, d2 := co.nFlush-nFlush, co.nFlushErr-nFlushErr
				switch {
				case !fam.flush():
					if !errors.Is(err, http.ErrNotSupported) {
						bad("FlushError on a writer that cannot flush returned %v, want an error matching http.ErrNotSupported", err)
						return
					}
				case d1+d2 != 1:
					bad("FlushError was delegated %d time(s) (Flush %d, FlushError %d), want once", d1+d2, d1, d2)
					return
				case d2 == 1 && err != co.capErr:
					bad("FlushError returned %v, the underlying FlushError returned %v", err, co.capErr)
					return
				case fam.fe && co.capErr != nil && err == nil:
					// a writer that offers both forms (net/http's own do: their Flush is FlushError with the error dropped) was
					// flushed through the error-less one
					bad("FlushError returned nil: the underlying writer offers FlushError, which reports that flushing fails with %v, and was flushed through Flush() instead", co.capErr)
					return
				case d1 == 1 && err != nil:
					bad("FlushError returned %v although the underlying Flush() cannot fail", err)
					return
				}
			case opPush:
				res.ft.capCall = true
				target, opts := fmt.Sprintf("/pushed/%d", i), &http.PushOptions{Method: "GET"}
				err := w.Push(target, opts)
				if m := delegated("push", fam.pu, err, func(cc capCall) bool { return cc.target == target && cc.opts == opts }); m != "" {
					bad("%s", m)
					return
				}
			case opRDeadline, opWDeadline:
				res.ft.capCall = true
				when := time.Unix(1700000000+int64(i), 0)
				if call.Code == 1 {
					when = time.Time{} // the zero time clears a deadline set earlier: it is an argument like any other
				}
				var err error
				name := "rdeadline"
				if call.Op == opRDeadline {
					err = w.SetReadDeadline(when)
				} else {
					name = "wdeadline"
					err = w.SetWriteDeadline(when)
				}
				if m := delegated(name, fam.dl, err, func(cc capCall) bool { return cc.when.Equal(when) }); m != "" {
					bad("%s", m)
					return
				}
			case opDuplex:
				res.ft.capCall = true
				err := w.EnableFullDuplex()
				if m := delegated("duplex", fam.fd, err, anyArgs); m != "" {
					bad("%s", m)
					return
				}
			case opHijack:
				res.ft.capCall = true
				conn, brw, err := w.Hijack()
				if m := delegated("hijack", fam.hj, err, anyArgs); m != "" {
					bad("%s", m)
					return
				}
				if fam.hj && co.capErr == nil {
					if conn != co.conn || brw != co.brw {
						bad("Hijack did not return the connection and buffer of the underlying writer")
						return
					}
					stop = true // the connection now belongs to the caller; the writer must not be used any more
				}
				// a Hijack that failed - the capability is missing, or the underlying Hijack returned an error - took nothing
				// over: the response still goes through the writer and the calls that follow are judged as before
			default:
				bad("unknown op %q in case", call.Op)
				return
			}
			if stop {
				// no further call goes through the writer, but what it reports stays readable (a logging middleware reads it
				// after the handler returned) and taking the connection over forwarded neither a header nor a body byte
				if e := judgeState(w, co, offered); e != nil {
					bad("%v", e)
				}
				return
			}
			if call.Op == opWrite || call.Op == opWriteString || call.Op == opReadFrom {
				if c.Limit >= 0 && len(offered) > c.Limit && call.Data != "" {
					res.ft.partial = true
				}
			}
			if e := judgeState(w, co, offered); e != nil {
				bad("%v", e)
				return
			}
			res.obs = append(res.obs, obs{w.Status(), w.Size(), w.Written()})
			res.judged = i + 1
		}
	}
	judged := fox.HandlerFunc(handler)
	if c.Reenter {
		f2, e := fox.New()
		if e != nil {
			return nil, fmt.Errorf("fox.New: %v", e)
		}
		if _, e := f2.Handle(http.MethodGet, "/x", handler); e != nil {
			return nil, fmt.Errorf("Handle: %v", e)
		}
		judged = func(fc fox.Context) {
			f2.ServeHTTP(fc.Writer(), fc.Request())
			if herr == nil && !res.reenterCorner {
				if e := judgeState(fc.Writer(), co, offered); e != nil {
					herr = fmt.Errorf("%s: the handler had passed its c.Writer() to a second router's ServeHTTP, whose handler made these calls; afterwards, on the outer context: %v", c.prefix(len(c.Calls)), e)
				}
			}
		}
	}
	if _, e := f.Handle(http.MethodGet, "/x", judged); e != nil {
		return nil, fmt.Errorf("Handle: %v", e)
	}
	if c.Prior != "" {
		_, e := f.Handle(http.MethodGet, "/prior", func(fc fox.Context) {
			w := fc.Writer()
			switch c.Prior {
			case "hijack":
				_, _, _ = w.Hijack()
			case "body":
				w.WriteHeader(http.StatusCreated)
				_, _ = w.Write([]byte("prior"))
			case "flush":
				w.WriteHeader(http.StatusAccepted)
				_ = w.FlushError()
			case "readfrom":
				_, _ = w.ReadFrom(strings.NewReader("prior"))
			case "informational":
				w.WriteHeader(http.StatusEarlyHints)
			}
		})
		if e != nil {
			return nil, fmt.Errorf("Handle: %v", e)
		}
		pco, pdone := newCore(-1, false)
		f.ServeHTTP(familyByName("all").mk(pco), httptest.NewRequest(http.MethodGet, "/prior", nil))
		pdone()
	}
	f.ServeHTTP(under, httptest.NewRequest(http.MethodGet, "/x", nil))
	if !ran {
		return nil, fmt.Errorf("the handler was not run")
	}
	if herr != nil {
		return res, herr
	}
	// nothing may be added once the handler returned: re-check the underlying writer's invariants
	if f := co.finals(); len(f) > 1 {
		return res, fmt.Errorf("%s: after ServeHTTP returned the underlying writer had received final codes %v", c.prefix(len(c.Calls)), f)
	}
	return res, nil
}

const cornerReason = "differential only: first body bytes arrive through ReadFrom at a writer that accepts none (fallback forwards a header before the failed write, fast path forwards nothing; both are judged against their own ground truth)"

func checkCase(c *Case, count bool) error {
	fam := familyByName(c.Writer)
	if fam == nil {
		return fmt.Errorf("unknown writer family %q", c.Writer)
	}
	res, err := runSeq(fam, c)
	if count && res != nil {
		classify(c, fam, res)
	}
	if err != nil {
		return err
	}
	// differential: same sequence, sibling writer that differs only in the optional fast paths
	for _, tw := range twins(fam) {
		c2 := *c
		c2.Writer = tw.Name
		r2, err := runSeq(tw, &c2)
		if err != nil {
			return err
		}
		upto := min(res.judged, r2.judged)
		corner := false
		if tw.rf != fam.rf && res.rfCorner >= 0 && res.rfCorner < upto {
			upto = res.rfCorner
			corner = true
			if count {
				stats.Excluded(cornerReason)
			}
		}
		for i := 0; i < upto; i++ {
			if res.obs[i] != r2.obs[i] {
				return fmt.Errorf("%s: after the last call c.Writer() reports %v, but on underlying writer %q (same capabilities except the fast paths ReaderFrom/StringWriter/Flush-vs-FlushError) it reports %v",
					c.prefix(i), res.obs[i], tw.Name, r2.obs[i])
			}
		}
		if !corner {
			if res.judged != r2.judged {
				return fmt.Errorf("%s: %d calls judged but %d on sibling writer %q (harness error)", c.prefix(len(c.Calls)), res.judged, r2.judged, tw.Name)
			}
			if !bytes.Equal(res.co.body, r2.co.body) || res.co.effective() != r2.co.effective() {
				return fmt.Errorf("%s: the underlying writer got status %d body %q, but sibling writer %q got status %d body %q",
					c.prefix(len(c.Calls)), res.co.effective(), res.co.body, tw.Name, r2.co.effective(), r2.co.body)
			}
		}
		if count {
			stats.Class("differential:sibling-writer-runs")
		}
	}
	return nil
}

func nonTrivial(ft feats) bool {
	return ft.readFrom || ft.partial || ft.failingSource || ft.headerAfterBody
}

func classify(c *Case, fam *family, res *runResult) {
	stats.Class("writer:" + fam.Name)
	stats.Class(fmt.Sprintf("limit:%d", c.Limit))
	stats.Class(fmt.Sprintf("len:%d", len(c.Calls)))
	if c.Prior != "" {
		stats.Class("recycled-context-after:" + c.Prior)
	}
	if c.Reenter {
		stats.Class("calls-made-inside-a-second-router-entered-with-c.Writer()")
		if res.reenterCorner {
			stats.Excluded(cornerReason)
		}
	}
	ft := res.ft
	for name, on := range map[string]bool{
		"feat:readfrom": ft.readFrom, "feat:partly-accepted-write": ft.partial, "feat:failing-source": ft.failingSource,
		"feat:empty-source": ft.emptySource, "feat:header-after-body-byte": ft.headerAfterBody, "feat:second-final-header": ft.repeatedFinal,
		"feat:informational-before-final": ft.info, "feat:switching-protocols-101": ft.switching, "feat:flush-before-anything-written": ft.flushFirst,
		"feat:capability-call": ft.capCall, "feat:readfrom-on-readerfrom-writer": ft.readFrom && fam.rf, "feat:readfrom-on-fallback-writer": ft.readFrom && !fam.rf,
		"feat:failing-source-on-readerfrom-writer": ft.failingSource && fam.rf,
	} {
		if on {
			stats.Class(name)
		}
	}
	if nonTrivial(ft) {
		b, _ := json.Marshal(c)
		stats.NonTrivial("seq|" + string(b))
	}
}

// ---------------------------------------------------------------------------------------------------------------------
// generators
// ---------------------------------------------------------------------------------------------------------------------

var headerCodes = []int{100, 102, 103, 199, 101, 200, 201, 204, 301, 404, 500, 599}
var limits = []int{0, 1, 3, 6, -1, -1}

// payload gives every call its own letters so that reordering or duplication shows in the accepted bytes.
func payload(start, n int) string {
	b := make([]byte, n)
	for i := range b {
		b[i] = byte('a' + (start+i)%26)
	}
	return string(b)
}

func genCase(t *rapid.T) *Case {
	c := &Case{
		Writer: gen.Pick(t, families, "family").Name,
		Limit:  gen.Pick(t, limits, "limit"),
		CapErr: gen.Chance(t, 1, 3, "caperr"),
	}
	n := gen.IntR(t, 1, 8, "ncalls")
	off := 0
	for i := 0; i < n; i++ {
		var call Call
		k := gen.U(t, 100, "op")
		switch {
		case k < 30:
			call = Call{Op: opHeader, Code: gen.Pick(t, headerCodes, "code")}
		case k < 44:
			call = Call{Op: opWrite, Data: payload(off, gen.Pick(t, []int{0, 1, 2, 3, 5}, "n"))}
		case k < 56:
			call = Call{Op: opWriteString, Data: payload(off, gen.Pick(t, []int{0, 1, 2, 3, 5}, "n"))}
		case k < 80:
			call = Call{Op: opReadFrom, Chunk: gen.Pick(t, []int{0, 0, 1, 2}, "chunk")}
			switch gen.U(t, 6, "src") {
			case 0, 1: // m bytes then EOF
				call.Data = payload(off, gen.IntR(t, 1, 6, "m"))
			case 2, 3: // j bytes then failure
				call.Data, call.Fail = payload(off, gen.IntR(t, 1, 5, "j")), true
			case 4: // empty
			case 5: // fails immediately
				call.Fail = true
			}
			call.ErrWith = call.Data != "" && gen.Chance(t, 1, 3, "errwith")
			if noReadFrom {
				call = Call{Op: opWrite, Data: call.Data}
			}
		case k < 90:
			call = Call{Op: opFlush}
		default:
			call = Call{Op: gen.Pick(t, []string{opPush, opRDeadline, opWDeadline, opDuplex}, "cap")}
			if (call.Op == opRDeadline || call.Op == opWDeadline) && gen.Chance(t, 1, 2, "zerotime") {
				call.Code = 1
			}
		}
		off += len(call.Data)
		c.Calls = append(c.Calls, call)
	}
	c.Prior = gen.Pick(t, priors, "prior")
	c.Reenter = gen.Chance(t, 1, 5, "reenter")
	if gen.Chance(t, 1, 8, "hijack") && len(c.Calls) < 8 {
		// anywhere in the sequence: where the writer cannot be hijacked the call fails and the rest goes on as before
		at := gen.IntR(t, 0, len(c.Calls), "hijackat")
		c.Calls = append(c.Calls[:at:at], append([]Call{{Op: opHijack}}, c.Calls[at:]...)...)
	}
	return c
}

func TestRandom(t *testing.T) {
	rapid.Check(t, func(t *rapid.T) {
		c := genCase(t)
		defer stats.Guard("writer", func() any { return c })()
		stats.Eval()
		stats.Sample(c)
		if err := checkCase(c, true); err != nil {
			stats.Fail("writer", c, "%v", err)
			t.Fatalf("%v", err)
		}
	})
}

// ---- exhaustive: every sequence up to a length over a reduced alphabet x every writer family x every limit ----

func reducedAlphabet() []Call {
	a := []Call{
		{Op: opHeader, Code: 404},
		{Op: opHeader, Code: 200},
		{Op: opHeader, Code: 100},
		{Op: opHeader, Code: 101},
		{Op: opWrite, Data: "ab"},
		{Op: opWrite, Data: ""},
		{Op: opWriteString, Data: "cd"},
		{Op: opFlush},
	}
	if !noReadFrom {
		a = append(a,
			Call{Op: opReadFrom, Data: "i", Fail: true},             // fails after 1 byte
			Call{Op: opReadFrom, Data: ""},                          // empty source
			Call{Op: opReadFrom, Data: "", Fail: true},              // fails after 0 bytes
			Call{Op: opReadFrom, Data: "jkl", Fail: true, Chunk: 2}, // fails after 3 bytes
			Call{Op: opReadFrom, Data: "efgh"},                      // never fails (the writer may)
		)
	}
	return a
}

func capAlphabet() []Call {
	return []Call{{Op: opPush}, {Op: opRDeadline}, {Op: opWDeadline}, {Op: opRDeadline, Code: 1}, {Op: opWDeadline, Code: 1}, {Op: opDuplex}, {Op: opFlush}, {Op: opHijack},
		{Op: opHeader, Code: 404}, {Op: opWrite, Data: "ab"}}
}

func enumerate(t *testing.T, alpha []Call, maxLen int, lims []int, capErrs []bool, counter *int) {
	shard, shards := stats.EnvInt("VERIF_SHARD", 0), stats.EnvInt("VERIF_SHARDS", 1)
	for l := 1; l <= maxLen; l++ {
		idx := make([]int, l)
		for {
			calls := make([]Call, l)
			hijackInside := false
			for i, k := range idx {
				calls[i] = alpha[k]
				if calls[i].Op == opHijack && i != l-1 {
					hijackInside = true
				}
			}
			{
				for _, fam := range families {
					for _, lim := range lims {
						for _, ce := range capErrs {
							if hijackInside && fam.hj && !ce {
								// a successful Hijack ends the writer's life: nothing after it is judged. Where Hijack fails (no such
								// capability, or the underlying Hijack returns an error) the calls that follow behave as if it had
								// not been made.
								continue
							}
							*counter++
							if *counter%shards != shard {
								continue
							}
							c := &Case{Writer: fam.Name, Limit: lim, CapErr: ce, Calls: calls, Prior: priors[*counter%len(priors)], Reenter: *counter%5 == 3}
							stats.Eval()
							if *counter%20011 == 1 {
								stats.Sample(c)
							}
							var err error
							func() {
								defer stats.Guard("writer", func() any { return c })()
								err = checkCase(c, true)
							}()
							if err != nil {
								stats.Fail("writer", c, "%v", err)
								t.Errorf("%v", err)
								return
							}
						}
					}
				}
			}
			// next index vector
			p := l - 1
			for p >= 0 {
				idx[p]++
				if idx[p] < len(alpha) {
					break
				}
				idx[p] = 0
				p--
			}
			if p < 0 {
				break
			}
		}
	}
}

func TestExhaustive(t *testing.T) {
	maxLen := stats.EnvInt("C14_EXH_LEN", 3)
	capLen := stats.EnvInt("C14_EXH_CAPLEN", 2)
	alpha := reducedAlphabet()
	var names []string
	for _, a := range alpha {
		names = append(names, a.String())
	}
	stats.Note("exhaustive", fmt.Sprintf("all call sequences of length <= %d over {%s} x %d writer families x limits {0,1,3,unlimited}; plus all sequences of length <= %d over the capability alphabet x families x {capability succeeds, fails}",
		maxLen, strings.Join(names, ", "), len(families), capLen))
	n := 0
	enumerate(t, alpha, maxLen, []int{-1, 0, 1, 3}, []bool{false}, &n)
	if !stats.Failed() {
		enumerate(t, capAlphabet(), capLen, []int{-1}, []bool{false, true}, &n)
	}
}

// ---------------------------------------------------------------------------------------------------------------------
// Context helpers: String, Blob, Stream, Redirect
// ---------------------------------------------------------------------------------------------------------------------

type HelperCase struct {
	Writer      string   `json:"writer"`
	Limit       int      `json:"limit"`
	Helper      string   `json:"helper"` // String, Blob, Stream, Redirect
	Method      string   `json:"method"`
	Code        int      `json:"code"`
	ContentType string   `json:"content_type,omitempty"`
	Format      string   `json:"format,omitempty"`
	Args        []string `json:"args,omitempty"`
	Data        string   `json:"data,omitempty"`
	Fail        bool     `json:"fail,omitempty"`  // Stream: the reader fails after Data
	Chunk       int      `json:"chunk,omitempty"` // Stream: bytes per Read
	URL         string   `json:"url,omitempty"`
	// Preset: a Content-Type some earlier code (a middleware, the handler itself) had already put in the response header
	// before the helper is called; Blob and Stream still send the content type they are given.
	Preset string `json:"preset,omitempty"`
	// Via: how the handler got the context it calls the helper on: "" the one ServeHTTP runs it with; "clonewith" a copy made
	// with CloneWith(c.Writer(), c.Request()) by a middleware; "lookup" the one Router.Lookup hands out for a writer of the
	// caller's. All three write to the same kind of fox writer over the same underlying writer.
	Via string `json:"via,omitempty"`
}

func (c *HelperCase) String() string {
	lim := "any number of bytes"
	if c.Limit >= 0 {
		lim = fmt.Sprintf("%d byte(s)", c.Limit)
	}
	pre := fmt.Sprintf("%s request, underlying writer %q accepting %s; ", c.Method, c.Writer, lim)
	if c.Via != "" {
		pre += fmt.Sprintf("context obtained through %s; ", c.Via)
	}
	if c.Preset != "" {
		pre += fmt.Sprintf("response header already holds Content-Type %q; ", c.Preset)
	}
	switch c.Helper {
	case "String":
		return pre + fmt.Sprintf("c.String(%d, %q, %q)", c.Code, c.Format, c.Args)
	case "Blob":
		return pre + fmt.Sprintf("c.Blob(%d, %q, %q)", c.Code, c.ContentType, c.Data)
	case "Stream":
		end := "EOF"
		if c.Fail {
			end = "error"
		}
		return pre + fmt.Sprintf("c.Stream(%d, %q, reader yielding %q then %s)", c.Code, c.ContentType, c.Data, end)
	}
	return pre + fmt.Sprintf("c.Redirect(%d, %q)", c.Code, c.URL)
}

type helperOut struct {
	co  *core
	obs obs
}

func runHelper(fam *family, c *HelperCase) (out *helperOut, err error) {
	defer func() {
		if r := recover(); r != nil {
			err = fmt.Errorf("%s: panic: %v", c, r)
		}
	}()
	co, done := newCore(c.Limit, false)
	defer done()
	out = &helperOut{co: co}
	f, e := fox.New()
	if e != nil {
		return nil, fmt.Errorf("fox.New: %v", e)
	}
	ran := false
	var herr error
	handler := func(fc fox.Context) {
		ran = true
		var want []byte
		var rerr error
		var shared []string
		switch {
		case strings.HasPrefix(c.Preset, "shared:"):
			// a default value slice owned by someone else (a package-level default assigned into the header map): the helper
			// replaces the header entry, it does not write into that slice
			shared = []string{strings.TrimPrefix(c.Preset, "shared:")}
			fc.Writer().Header()["Content-Type"] = shared
		case c.Preset != "":
			for _, v := range strings.Split(c.Preset, "|") {
				fc.Writer().Header().Add("Content-Type", v)
			}
		}
		defer func() {
			if shared != nil && herr == nil && shared[0] != strings.TrimPrefix(c.Preset, "shared:") {
				herr = fmt.Errorf("%s: the value slice that held the earlier Content-Type now reads %q: the helper wrote into a slice it does not own", c, shared)
			}
		}()
		switch c.Helper {
		case "String":
			args := make([]any, len(c.Args))
			for i, a := range c.Args {
				args[i] = a
			}
			want = []byte(fmt.Sprintf(c.Format, args...))
			_ = fc.String(c.Code, c.Format, args...)
		case "Blob":
			want = []byte(c.Data)
			_ = fc.Blob(c.Code, c.ContentType, []byte(c.Data))
		case "Stream":
			want = []byte(c.Data)
			_ = fc.Stream(c.Code, c.ContentType, &source{data: []byte(c.Data), fail: c.Fail, chunk: c.Chunk})
		case "Redirect":
			rerr = fc.Redirect(c.Code, c.URL)
		default:
			herr = fmt.Errorf("unknown helper %q", c.Helper)
			return
		}
		w := fc.Writer()
		out.obs = obs{w.Status(), w.Size(), w.Written()}
		if c.Helper == "Redirect" {
			if c.Code < 300 || c.Code > 308 {
				if rerr == nil {
					herr = fmt.Errorf("%s: returned no error for a code outside 300..308", c)
				} else if len(co.codes) != 0 || len(co.body) != 0 || co.hdr.Get("Location") != "" || out.obs.Written {
					herr = fmt.Errorf("%s: rejected with %v but the underlying writer received codes %v, body %q, Location %q (Written=%v)",
						c, rerr, co.codes, co.body, co.hdr.Get("Location"), out.obs.Written)
				}
				return
			}
			if rerr != nil {
				herr = fmt.Errorf("%s: returned error %v for a code inside 300..308", c, rerr)
				return
			}
			if f := co.finals(); len(f) != 1 || f[0] != c.Code {
				herr = fmt.Errorf("%s: the underlying writer received final status codes %v, want exactly [%d]", c, f, c.Code)
				return
			}
			if loc := co.hdr.Get("Location"); loc != c.URL {
				herr = fmt.Errorf("%s: Location header is %q", c, loc)
				return
			}
		} else {
			if f := co.finals(); len(f) != 1 || f[0] != c.Code || co.codeAt[len(co.codes)-1] != 0 {
				herr = fmt.Errorf("%s: the underlying writer received final status codes %v, want exactly [%d] before any body byte", c, f, c.Code)
				return
			}
			if c.Helper != "String" {
				if ct := co.hdr.Values("Content-Type"); len(ct) != 1 || ct[0] != c.ContentType {
					herr = fmt.Errorf("%s: Content-Type header of the underlying writer is %q", c, ct)
					return
				}
			}
			exp := want
			if c.Limit >= 0 && len(exp) > c.Limit {
				exp = exp[:c.Limit]
			}
			if !bytes.Equal(co.body, exp) {
				herr = fmt.Errorf("%s: the underlying writer accepted body %q, want %q", c, co.body, exp)
				return
			}
		}
		if tr := co.truth(); out.obs != tr {
			herr = fmt.Errorf("%s: afterwards c.Writer() reports %v, but the underlying writer received status codes %v and accepted %d body byte(s), so it must report %v",
				c, out.obs, co.codes, len(co.body), tr)
		}
	}
	registered := fox.HandlerFunc(handler)
	if c.Via == "clonewith" {
		registered = func(fc fox.Context) {
			cp := fc.CloneWith(fc.Writer(), fc.Request())
			defer cp.Close()
			handler(cp)
		}
	}
	if _, e := f.Handle(c.Method, "/dir/x", registered); e != nil {
		return nil, fmt.Errorf("Handle: %v", e)
	}
	if c.Via == "lookup" {
		// an earlier, ordinary request leaves its state in the pooled context the look-up is going to reuse
		f.ServeHTTP(httptest.NewRecorder(), httptest.NewRequest("PUT", "/other", nil))
		req := httptest.NewRequest(c.Method, "/dir/x", nil)
		rte, cc, _ := f.Lookup(fox.NewTestContextOnly(fam.mk(co), req).Writer(), req)
		if rte == nil {
			return nil, fmt.Errorf("Lookup found no route")
		}
		handler(cc)
		cc.Close()
	} else {
		f.ServeHTTP(fam.mk(co), httptest.NewRequest(c.Method, "/dir/x", nil))
	}
	if !ran {
		return nil, fmt.Errorf("the handler was not run")
	}
	return out, herr
}

func helperPayloadLen(c *HelperCase) int {
	if c.Helper == "String" {
		args := make([]any, len(c.Args))
		for i, a := range c.Args {
			args[i] = a
		}
		return len(fmt.Sprintf(c.Format, args...))
	}
	return len(c.Data)
}

func checkHelper(c *HelperCase, count bool) error {
	fam := familyByName(c.Writer)
	if fam == nil {
		return fmt.Errorf("unknown writer family %q", c.Writer)
	}
	out, err := runHelper(fam, c)
	if count {
		stats.Class("helper:" + c.Helper)
		stats.Class("helper-writer:" + fam.Name)
		if c.Via != "" {
			stats.Class("helper-context-via:" + c.Via)
		}
		partial := c.Limit >= 0 && c.Helper != "Redirect" && out != nil && helperPayloadLen(c) > c.Limit
		if c.Helper == "Redirect" && (c.Code < 300 || c.Code > 308) {
			stats.Class("helper:Redirect-rejected-code")
		}
		if c.Helper == "Stream" && c.Fail {
			stats.Class("helper:Stream-failing-reader")
		}
		if c.Helper == "Stream" || partial || c.Fail {
			b, _ := json.Marshal(c)
			stats.NonTrivial("helper|" + string(b))
		}
	}
	if err != nil {
		return err
	}
	for _, tw := range twins(fam) {
		c2 := *c
		c2.Writer = tw.Name
		o2, err := runHelper(tw, &c2)
		if err != nil {
			return err
		}
		if out.obs != o2.obs || !bytes.Equal(out.co.body, o2.co.body) || out.co.effective() != o2.co.effective() {
			return fmt.Errorf("%s: c.Writer() reports %v and the underlying writer got status %d body %q, but with sibling writer %q it reports %v, status %d body %q",
				c, out.obs, out.co.effective(), out.co.body, tw.Name, o2.obs, o2.co.effective(), o2.co.body)
		}
	}
	return nil
}

var helperCodes = []int{200, 201, 202, 400, 404, 500, 503}
// every code of the accepted range one by one (306 included: reserved, but inside 300..308), both neighbours, and a few far ones
var redirectCodes = []int{300, 301, 302, 303, 304, 305, 306, 307, 308, 298, 299, 309, 310, 200, 404, 100, 0, 399, -1, 1308}
var contentTypes = []string{"application/json", "text/plain; charset=utf-8", "application/octet-stream", "image/png", "x/y"}
var redirectURLs = []string{"https://example.com/a?b=c", "/clean/path", "/", "http://other.test/", "/a/b?x=1&y=2"}
var formats = []struct {
	f string
	n int
}{{"plain", 0}, {"", 0}, {"%s", 1}, {"hello %s!", 1}, {"%s-%s", 2}, {"100%% %s", 1}, {"%q", 1},
	// formats that need formatting although no value is given: the bytes sent are fmt.Sprintf's, whatever the number of values
	{"100%% done", 0}, {"%%", 0}, {"missing %s", 0}, {"%d items", 0}, {"%!", 0}, {"extra", 1}}

func genHelper(t *rapid.T) *HelperCase {
	c := &HelperCase{
		Writer: gen.Pick(t, families, "family").Name,
		Limit:  gen.Pick(t, limits, "limit"),
		Method: gen.Pick(t, []string{"GET", "POST", "HEAD"}, "method"),
	}
	hs := []string{"String", "Blob", "Stream", "Redirect"}
	if noReadFrom {
		hs = []string{"String", "Blob", "Redirect"}
	}
	c.Helper = gen.Pick(t, hs, "helper")
	c.Via = gen.Pick(t, []string{"", "", "clonewith", "lookup"}, "via")
	c.Code = gen.Pick(t, helperCodes, "code")
	c.Preset = gen.Pick(t, []string{"", "", "application/x-preset", "text/plain; charset=utf-8", "application/x-one|text/x-two", "shared:application/x-default"}, "preset")
	switch c.Helper {
	case "String":
		f := gen.Pick(t, formats, "format")
		c.Format = f.f
		for i := 0; i < f.n; i++ {
			c.Args = append(c.Args, gen.Pick(t, []string{"x", "", "fox", "a b", "é"}, "arg"))
		}
	case "Blob":
		c.ContentType = gen.Pick(t, contentTypes, "ct")
		c.Data = payload(0, gen.Pick(t, []int{0, 1, 2, 4, 7}, "n"))
	case "Stream":
		c.ContentType = gen.Pick(t, contentTypes, "ct")
		c.Data = payload(0, gen.Pick(t, []int{0, 1, 2, 4, 7}, "n"))
		c.Fail = gen.Chance(t, 1, 3, "fail")
		c.Chunk = gen.Pick(t, []int{0, 1, 3}, "chunk")
	case "Redirect":
		c.Code = gen.Pick(t, redirectCodes, "rcode")
		c.URL = gen.Pick(t, redirectURLs, "url")
	}
	return c
}

func TestHelpers(t *testing.T) {
	rapid.Check(t, func(t *rapid.T) {
		c := genHelper(t)
		defer stats.Guard("helper", func() any { return c })()
		stats.Eval()
		stats.Sample(c)
		if err := checkHelper(c, true); err != nil {
			stats.Fail("helper", c, "%v", err)
			t.Fatalf("%v", err)
		}
	})
}
