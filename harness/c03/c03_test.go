// C03 — a published routing state never changes (snapshot immutability).
package c03

import (
	"encoding/json"
	"fmt"
	"os"
	"strings"
	"sync"
	"testing"

	"github.com/tigerwill90/fox"
	"pgregory.net/rapid"

	"verif/gen"
	"verif/hist"
	"verif/stats"
)

func TestMain(m *testing.M) {
	stats.Init("C03")
	stats.RegisterReplay("history", hist.Replay)
	stats.RegisterReplay("concurrent-snapshot", func(raw json.RawMessage) error {
		var c struct {
			Rounds int `json:"rounds"`
		}
		_ = json.Unmarshal(raw, &c)
		for i := 0; i < 5; i++ {
			if err := runConcurrentReaders(max(c.Rounds, 100)); err != nil {
				return err
			}
		}
		return nil
	})
	os.Exit(stats.Finish(m.Run()))
}

func TestReplay(t *testing.T) { stats.RunReplays(t) }

func canon(h *hist.History) string {
	var sb strings.Builder
	for _, op := range h.Ops {
		sb.WriteString(op.String())
		sb.WriteByte(';')
	}
	return sb.String()
}

func after(e *hist.Engine, h *hist.History) {
	for k, v := range e.Stat {
		if strings.HasPrefix(k, "snapshot") || strings.HasPrefix(k, "nontrivial:write-shares") || strings.HasPrefix(k, "nontrivial:...") || strings.HasPrefix(k, "txn:") {
			stats.ClassN(k, v)
		}
	}
	if e.Stat["nontrivial:write-shares-prefix-with-snapshotted-route"] > 0 {
		stats.NonTrivial(canon(h))
	}
	stats.Sample(h)
}

// Snapshots (Router.Iter, Txn.Iter inside write transactions, read-only transactions kept open,
// Txn.Snapshot) are taken at arbitrary points and re-observed in full after every later step.
func TestSnapshots(t *testing.T) {
	rapid.Check(t, func(t *rapid.T) {
		cfg := hist.Cfg{Observers: true, Snapshots: true, Methods: []string{"GET", "POST", "FOO"}}
		cfg.QuietTxn = gen.Chance(t, 1, 2, "quietTxn")
		g := hist.GenCfg{Txn: true, Managed: true, Snapshots: true, MaxBody: 5}
		hist.RunRapid(t, "history", cfg, g, after)
	})
}

// TestLargeTxn: one transaction touching more nodes than the writable-node cache holds (4096),
// with snapshots taken before, in the middle (before and after eviction) and after.
func TestLargeTxn(t *testing.T) {
	n := stats.EnvInt("C03_LARGE_ROUTES", 6000)
	rapid.Check(t, func(t *rapid.T) {
		e, err := hist.New(hist.Cfg{Snapshots: true, Methods: []string{"GET", "POST"}})
		if err != nil {
			t.Fatal(err)
		}
		defer e.Close()
		h := &hist.History{Cfg: e.Cfg}
		defer stats.Guard("history", func() any { return h })()
		step := func(op hist.Op, check bool) {
			h.Ops = append(h.Ops, op)
			if err := e.Apply(op); err != nil {
				stats.Fail("history", h, "%v", err)
				t.Fatalf("%v", err)
			}
			if check {
				if err := e.CheckState(); err != nil {
					stats.Fail("history", h, "after %v: %v", op, err)
					t.Fatalf("%v", err)
				}
			}
		}
		// a committed base so that the big transaction has something to copy
		base := gen.IntR(t, 50, 400, "base")
		for i := 0; i < base; i++ {
			step(hist.Op{Kind: "handle", Method: "GET", Pattern: fmt.Sprintf("/r%d/%d/{p}", i%37, i)}, false)
		}
		step(hist.Op{Kind: "snapshot", What: "router-iter"}, true)
		step(hist.Op{Kind: "snapshot", What: "view"}, true)
		step(hist.Op{Kind: "begin"}, false)
		snapAt := map[int]string{
			gen.IntR(t, 1, 200, "s1"):      "txn-iter",
			gen.IntR(t, 3000, 4000, "s2"):  "txn-snapshot",
			gen.IntR(t, 4100, 4500, "s3"):  "txn-iter",
			gen.IntR(t, 4600, n-100, "s4"): "txn-snapshot",
		}
		for i := 0; i < n; i++ {
			var op hist.Op
			switch i % 5 {
			case 0, 1, 2:
				op = hist.Op{Kind: "handle", Method: "GET", Pattern: fmt.Sprintf("/r%d/n%d/{p}", i%37, i)}
			case 3:
				op = hist.Op{Kind: "update", Method: "GET", Pattern: fmt.Sprintf("/r%d/%d/{p}", (i%base)%37, i%base)}
			default:
				op = hist.Op{Kind: "delete", Method: "GET", Pattern: fmt.Sprintf("/r%d/n%d/{p}", (i-4)%37, i-4)}
			}
			what, snap := snapAt[i]
			step(op, false)
			if snap {
				step(hist.Op{Kind: "snapshot", What: what}, true)
			}
			if i%997 == 0 {
				if err := e.CheckState(); err != nil {
					stats.Fail("history", h, "inside the large transaction at write %d: %v", i, err)
					t.Fatalf("%v", err)
				}
			}
		}
		end := gen.Pick(t, []string{"commit", "abort"}, "end")
		step(hist.Op{Kind: end}, true)
		step(hist.Op{Kind: "handle", Method: "GET", Pattern: "/after"}, true)
		stats.EvalN(len(h.Ops))
		stats.Class("large-transaction:" + end)
		stats.NonTrivial(fmt.Sprintf("large|%d|%v|%s", base, snapAt, end))
		h.Ops = nil // not sampled: too long
	})
}

// TestConcurrentReaders: readers keep re-reading frozen snapshots while a writer commits (run with -race).
func TestConcurrentReaders(t *testing.T) {
	rounds := stats.EnvInt("C03_CONC_ROUNDS", 300)
	if err := runConcurrentReaders(rounds); err != nil {
		stats.Fail("concurrent-snapshot", map[string]any{"rounds": rounds}, "%v", err)
		t.Fatal(err)
	}
	stats.Class("concurrent-reader-runs")
	stats.NonTrivial(fmt.Sprintf("concurrent|%d", rounds))
}

func runConcurrentReaders(rounds int) error {
	f, err := fox.New()
	if err != nil {
		return nil
	}
	h := func(fox.Context) {}
	for i := 0; i < 50; i++ {
		f.MustHandle("GET", fmt.Sprintf("/base/%d/{p}", i), h)
	}
	var wg sync.WaitGroup
	stop := make(chan struct{})
	fail := make(chan string, 16)
	reader := func(id int) {
		defer wg.Done()
		for {
			select {
			case <-stop:
				return
			default:
			}
			it := f.Iter()
			first := ""
			for pass := 0; pass < 3; pass++ {
				var sb strings.Builder
				for m, r := range it.All() {
					fmt.Fprintf(&sb, "%s %p;", m, r)
				}
				if pass == 0 {
					first = sb.String()
				} else if sb.String() != first {
					select {
					case fail <- fmt.Sprintf("reader %d: an Iter taken once yielded different routes on re-iteration while a writer was committing", id):
					default:
					}
					return
				}
			}
			stats.Eval()
		}
	}
	for i := 0; i < 6; i++ {
		wg.Add(1)
		go reader(i)
	}
	for i := 0; i < rounds; i++ {
		_ = f.Updates(func(txn *fox.Txn) error {
			for j := 0; j < 5; j++ {
				p := fmt.Sprintf("/base/%d/x%d", (i+j)%50, i)
				if _, err := txn.Handle("GET", p, h); err != nil {
					return err
				}
			}
			if i%3 == 0 {
				_, _ = txn.Update("GET", fmt.Sprintf("/base/%d/{p}", i%50), h)
			}
			if i > 2 {
				_, _ = txn.Delete("GET", fmt.Sprintf("/base/%d/x%d", (i-2)%50, i-2))
			}
			return nil
		})
	}
	close(stop)
	wg.Wait()
	select {
	case msg := <-fail:
		return fmt.Errorf("%s", msg)
	default:
	}
	return nil
}
