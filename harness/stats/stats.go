// Package stats is the evidence / replay plumbing shared by every check.
//
// A test binary calls Init in TestMain, the properties call Eval / NonTrivial /
// Class / Sample / Fail while they run, and Finish writes one shard file that
// the driver (/verif/check) merges into evidence/<ID>.json. Nothing in here
// decides a verdict: a verdict is "Fail was called".
package stats

import (
	"crypto/sha256"
	"encoding/binary"
	"encoding/hex"
	"encoding/json"
	"fmt"
	"hash/fnv"
	"os"
	"path/filepath"
	"sort"
	"strconv"
	"sync"
	"time"
)

type failure struct {
	Kind    string          `json:"kind"`
	Message string          `json:"message"`
	Case    json.RawMessage `json:"case"`
}

type knownHit struct {
	ID   string `json:"id"`
	What string `json:"what"`
}

var (
	mu        sync.Mutex
	propID    string
	tier      string
	seed      int64
	start     time.Time
	evals     int64
	hashes    = map[uint64]struct{}{}
	classes   = map[string]int64{}
	samples   []json.RawMessage
	sampleCnt int64
	excluded  = map[string]int64{}
	lastFail  *failure
	failCount int64
	known     []knownHit
	notes     = map[string]any{}
	maxSample = 8
)

// Init must be called from TestMain before m.Run.
func Init(id string) {
	propID = id
	tier = os.Getenv("VERIF_TIER")
	if tier == "" {
		tier = "quick"
	}
	seed, _ = strconv.ParseInt(os.Getenv("VERIF_SEED"), 10, 64)
	start = time.Now()
}

// Tier returns "quick" or "thorough".
func Tier() string { return tier }

// Thorough reports whether the thorough tier is running.
func Thorough() bool { return tier == "thorough" }

// Seed returns VERIF_SEED (0 when unset).
func Seed() int64 { return seed }

// EnvInt reads an integer knob passed by the driver.
func EnvInt(name string, def int) int {
	if v, err := strconv.Atoi(os.Getenv(name)); err == nil {
		return v
	}
	return def
}

// Eval counts one executed case.
func Eval() { mu.Lock(); evals++; mu.Unlock() }

// EvalN counts n executed cases.
func EvalN(n int) { mu.Lock(); evals += int64(n); mu.Unlock() }

// NonTrivial records the canonical form of a case that satisfies the
// property's non-triviality rule; distinct canonical forms are counted.
func NonTrivial(canon string) {
	h := fnv.New64a()
	h.Write([]byte(canon))
	v := h.Sum64()
	mu.Lock()
	hashes[v] = struct{}{}
	mu.Unlock()
}

// Class increments a histogram bucket.
func Class(name string) { mu.Lock(); classes[name]++; mu.Unlock() }

// ClassN adds n to a histogram bucket.
func ClassN(name string, n int) { mu.Lock(); classes[name] += int64(n); mu.Unlock() }

// Excluded counts a case that was kept out (or not judged) for a stated reason,
// e.g. the signature of an open known finding or a documented ambiguity.
func Excluded(reason string) { mu.Lock(); excluded[reason]++; mu.Unlock() }

// Note stores a free-form key in the evidence (bounds, alphabet, ...).
func Note(key string, v any) { mu.Lock(); notes[key] = v; mu.Unlock() }

// Sample offers a case for the sample list. The first few are kept, then
// exponentially rarer ones, so the list shows early and late cases.
func Sample(v any) {
	mu.Lock()
	defer mu.Unlock()
	sampleCnt++
	n := sampleCnt
	keep := n <= 3 || (n&(n-1)) == 0 && n >= 64
	if !keep {
		return
	}
	b, err := json.Marshal(v)
	if err != nil {
		return
	}
	if len(samples) >= maxSample {
		// keep the first three, rotate the rest
		copy(samples[3:], samples[4:])
		samples = samples[:len(samples)-1]
	}
	samples = append(samples, b)
}

var (
	pendingInconclusive string
	inconclusives       []string
)

// MarkInconclusive is called by a watchdog whose wait expired for a reason that is NOT the property being
// violated (e.g. a write that did not finish in time but is not blocked on the writer lock). The next Fail
// call is then recorded as inconclusive instead of as a violation: a time budget never decides a verdict.
func MarkInconclusive(reason string) {
	mu.Lock()
	pendingInconclusive = reason
	mu.Unlock()
}

// Fail records a failing case. The last call wins, which is the shrunk case
// when rapid drives the property (rapid re-runs the minimal case last).
func Fail(kind string, c any, format string, args ...any) {
	mu.Lock()
	if pendingInconclusive != "" {
		inconclusives = append(inconclusives, pendingInconclusive+": "+fmt.Sprintf(format, args...))
		pendingInconclusive = ""
		mu.Unlock()
		return
	}
	mu.Unlock()
	b, err := json.Marshal(c)
	if err != nil {
		b, _ = json.Marshal(fmt.Sprintf("%+v", c))
	}
	mu.Lock()
	lastFail = &failure{Kind: kind, Message: fmt.Sprintf(format, args...), Case: b}
	failCount++
	mu.Unlock()
}

// Failed reports whether any failure has been recorded.
func Failed() bool { mu.Lock(); defer mu.Unlock(); return lastFail != nil }

// ResetFailure forgets a recorded failure (used by known-finding replays,
// which must not turn into violations).
func ResetFailure() { mu.Lock(); lastFail = nil; failCount = 0; mu.Unlock() }

// KnownFinding reports that a listed open finding still reproduces.
func KnownFinding(id, what string) {
	mu.Lock()
	known = append(known, knownHit{id, what})
	mu.Unlock()
	fmt.Printf("KNOWN-FINDING: property=%s %s\n", propID, what)
}

type shard struct {
	Property   string            `json:"property"`
	Tier       string            `json:"tier"`
	Seed       int64             `json:"seed"`
	Evals      int64             `json:"evaluations"`
	Distinct   int               `json:"distinct_nontrivial"`
	HashFile   string            `json:"hash_file,omitempty"`
	Classes    map[string]int64  `json:"classes"`
	Excluded   map[string]int64  `json:"excluded"`
	Samples    []json.RawMessage `json:"samples"`
	Notes      map[string]any    `json:"notes"`
	Violations int64             `json:"violations"`
	Known      []knownHit        `json:"known_findings"`
	Replay     string            `json:"replay,omitempty"`
	WallS      float64           `json:"wall_s"`
	ExitCode   int               `json:"exit_code"`
}

// Finish writes the shard file (VERIF_OUT) and, when a failure was recorded,
// the replay file and the VIOLATION line. It returns the process exit code.
func Finish(code int) int {
	mu.Lock()
	defer mu.Unlock()
	sh := shard{
		Property: propID, Tier: tier, Seed: seed, Evals: evals, Distinct: len(hashes),
		Classes: classes, Excluded: excluded, Samples: samples, Notes: notes,
		Violations: failCount, Known: known, WallS: time.Since(start).Seconds(),
	}
	if lastFail != nil {
		dir := os.Getenv("VERIF_REPLAY_DIR")
		if dir == "" {
			dir = filepath.Join(VerifRoot(), "replays", propID)
		}
		_ = os.MkdirAll(dir, 0o755)
		body, _ := json.MarshalIndent(map[string]any{
			"property": propID, "kind": lastFail.Kind, "message": lastFail.Message, "case": lastFail.Case,
		}, "", " ")
		sum := sha256.Sum256(lastFail.Case)
		path := filepath.Join(dir, "fail-"+hex.EncodeToString(sum[:6])+".json")
		if replayOverride != "" {
			path = replayOverride // replaying one given file: that file is the reproduction
		} else if err := os.WriteFile(path, body, 0o644); err != nil {
			fmt.Printf("stats: cannot write replay: %v\n", err)
		}
		sh.Replay = path
		fmt.Printf("FAILURE-DETAIL property=%s kind=%s %s\n", propID, lastFail.Kind, lastFail.Message)
		fmt.Printf("VIOLATION property=%s replay=%s\n", propID, path)
		if code == 0 {
			code = 1
		}
	}
	if lastFail == nil && len(inconclusives) > 0 {
		for _, m := range inconclusives {
			if len(m) > 600 {
				m = m[:600]
			}
			fmt.Printf("INCONCLUSIVE-WATCHDOG property=%s %s\n", propID, m)
		}
		code = 2
	}
	sh.ExitCode = code
	if out := os.Getenv("VERIF_OUT"); out != "" {
		if len(hashes) > 0 {
			hs := make([]uint64, 0, len(hashes))
			for h := range hashes {
				hs = append(hs, h)
			}
			sort.Slice(hs, func(i, j int) bool { return hs[i] < hs[j] })
			buf := make([]byte, 8*len(hs))
			for i, h := range hs {
				binary.LittleEndian.PutUint64(buf[8*i:], h)
			}
			sh.HashFile = out + ".hashes"
			_ = os.WriteFile(sh.HashFile, buf, 0o644)
		}
		b, _ := json.Marshal(sh)
		if err := os.WriteFile(out, b, 0o644); err != nil {
			fmt.Printf("stats: cannot write shard file: %v\n", err)
			if code == 0 {
				code = 2
			}
		}
	}
	return code
}
