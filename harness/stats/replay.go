package stats

import (
	"encoding/json"
	"fmt"
	"os"
	"path/filepath"
	"runtime/debug"
	"sort"
	"strings"
	"testing"
)

// ReplayFunc re-runs one saved case through the same oracle as the generated
// check, without rapid. nil means the property held on that case.
type ReplayFunc func(raw json.RawMessage) error

var replayers = map[string]ReplayFunc{}

// RegisterReplay binds a case kind (the "kind" field of a replay file) to its oracle.
func RegisterReplay(kind string, f ReplayFunc) { replayers[kind] = f }

type replayFile struct {
	Property string          `json:"property"`
	Kind     string          `json:"kind"`
	Message  string          `json:"message"`
	Case     json.RawMessage `json:"case"`
}

// Finding is one entry of /verif/known_findings.json.
type Finding struct {
	ID       string `json:"id"`
	Property string `json:"property"`
	Status   string `json:"status"` // "open" or "fixed"
	Replay   string `json:"replay"` // path relative to /verif
	What     string `json:"what"`
	Commit   string `json:"commit,omitempty"`
}

// VerifRoot is where MANIFEST.json lives.
func VerifRoot() string {
	if r := os.Getenv("VERIF_ROOT"); r != "" {
		return r
	}
	return "/verif"
}

// Findings loads the committed known-findings file (never written at run time).
func Findings() []Finding {
	b, err := os.ReadFile(filepath.Join(VerifRoot(), "known_findings.json"))
	if err != nil {
		return nil
	}
	var doc struct {
		Findings []Finding `json:"findings"`
	}
	if json.Unmarshal(b, &doc) != nil {
		return nil
	}
	return doc.Findings
}

func runFile(path string) (kind string, raw json.RawMessage, err error, ok bool) {
	b, e := os.ReadFile(path)
	if e != nil {
		return "", nil, nil, false
	}
	var rf replayFile
	if json.Unmarshal(b, &rf) != nil || rf.Kind == "" {
		return "", nil, nil, false
	}
	f := replayers[rf.Kind]
	if f == nil {
		return rf.Kind, rf.Case, nil, false
	}
	func() {
		defer func() {
			if r := recover(); r != nil {
				err = fmt.Errorf("panic: %v\n%s", r, debug.Stack())
			}
		}()
		err = f(rf.Case)
	}()
	return rf.Kind, rf.Case, err, true
}

var replayOverride string

// RunReplays is the body of every package's TestReplay: with VERIF_REPLAY set
// it re-runs that one file; otherwise it re-runs every saved case of the
// property (the seconds-long regression tier) and every open known finding.
func RunReplays(t *testing.T) {
	if one := os.Getenv("VERIF_REPLAY"); one != "" {
		kind, raw, err, ok := runFile(one)
		if !ok {
			t.Fatalf("replay: cannot run %s (unknown kind %q or unreadable)", one, kind)
		}
		EvalN(1)
		if err != nil {
			replayOverride = one
			Fail(kind, raw, "%v", err)
			t.Errorf("replay %s: %v", one, err)
		} else {
			fmt.Printf("REPLAY-OK %s\n", one)
		}
		return
	}
	open := map[string]Finding{}
	for _, f := range Findings() {
		if f.Property == propID && f.Status == "open" {
			p := f.Replay
			if !filepath.IsAbs(p) {
				p = filepath.Join(VerifRoot(), p)
			}
			open[p] = f
		}
	}
	dir := filepath.Join(VerifRoot(), "replays", propID)
	files, _ := filepath.Glob(filepath.Join(dir, "*.json"))
	sort.Strings(files)
	n := 0
	for _, p := range files {
		if _, isOpen := open[p]; isOpen {
			continue
		}
		if strings.HasPrefix(filepath.Base(p), "fail-") && os.Getenv("VERIF_REPLAY_FAILS") == "" {
			// left over from an earlier red run (ignored by git); not part of the tier
			continue
		}
		kind, raw, err, ok := runFile(p)
		if !ok {
			continue
		}
		n++
		EvalN(1)
		if err != nil {
			Fail(kind, raw, "saved case %s: %v", filepath.Base(p), err)
			t.Errorf("replay %s: %v", p, err)
		}
	}
	ClassN("replayed-saved-cases", n)
	for p, f := range open {
		_, _, err, ok := runFile(p)
		if !ok {
			t.Logf("known finding %s: replay %s not runnable", f.ID, p)
			continue
		}
		EvalN(1)
		if err != nil {
			KnownFinding(f.ID, f.ID+": "+f.What)
		} else {
			fmt.Printf("NOTE known finding %s no longer reproduces\n", f.ID)
		}
	}
}

// Guard turns a panic raised by the code under test inside a rapid property
// into a recorded failure (rapid's own control-flow panics pass through).
//
//	defer stats.Guard("kind", func() any { return c })()
func Guard(kind string, c func() any) func() {
	return func() {
		if r := recover(); r != nil {
			tn := fmt.Sprintf("%T", r)
			if tn != "rapid.stopTest" && tn != "rapid.invalidData" {
				Fail(kind, c(), "panic: %v\n%s", r, debug.Stack())
			}
			panic(r)
		}
	}
}

// OpenFinding reports whether the known-findings file lists id as open. Exclusions made for an open
// finding are only active while it is listed; once it is recorded as fixed the checks judge those cases again.
func OpenFinding(id string) bool {
	if os.Getenv("VERIF_NO_EXCLUSIONS") != "" {
		return false
	}
	for _, f := range Findings() {
		if f.ID == id && f.Status == "open" {
			return true
		}
	}
	return false
}
