package stats

import (
	"encoding/hex"
	"encoding/json"
	"strconv"
)

// B is a byte-exact string for replay files: JSON strings cannot hold invalid
// UTF-8, so it is stored as hex plus a quoted rendering for the reader.
type B string

func (b B) MarshalJSON() ([]byte, error) {
	return json.Marshal(map[string]string{"q": strconv.Quote(string(b)), "x": hex.EncodeToString([]byte(b))})
}

func (b *B) UnmarshalJSON(data []byte) error {
	var m map[string]string
	if err := json.Unmarshal(data, &m); err != nil {
		var s string
		if err2 := json.Unmarshal(data, &s); err2 != nil {
			return err
		}
		*b = B(s)
		return nil
	}
	raw, err := hex.DecodeString(m["x"])
	if err != nil {
		return err
	}
	*b = B(raw)
	return nil
}
