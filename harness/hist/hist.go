// Package hist is the model-based engine for histories of registrations: it
// applies serialisable operations to a real fox router and to a sequential map
// model, compares every return value and every observer after every step, keeps
// snapshots and re-observes them, and drives transactions to every kind of
// ending. It is used by C02, C03, C04, C07 and C15.
package hist

import (
	"errors"
	"fmt"
	"net/http"
	"runtime"
	"sort"
	"strings"
	"sync"
	"time"

	"github.com/tigerwill90/fox"

	"verif/ref"
	"verif/rt"
	"verif/stats"
)

// Op is one step of a history.
type Op struct {
	Kind    string   `json:"kind"`
	Method  string   `json:"method,omitempty"`
	Pattern string   `json:"pattern,omitempty"`
	Methods []string `json:"methods,omitempty"` // truncate
	TS      int      `json:"ts,omitempty"`
	// managed transactions
	Body []Op   `json:"body,omitempty"`
	End  string `json:"end,omitempty"` // "ok", "err", "panic", "goexit" (Updates); View bodies only read
	// snapshots
	What string `json:"what,omitempty"`
}

func (o Op) String() string {
	switch o.Kind {
	case "truncate":
		return fmt.Sprintf("truncate%v", o.Methods)
	case "updates", "view":
		return fmt.Sprintf("%s{%v}->%s", o.Kind, o.Body, o.End)
	case "snapshot":
		return "snapshot:" + o.What
	case "begin", "commit", "abort", "settled-use", "readonly-write":
		return o.Kind
	}
	return fmt.Sprintf("%s %s %s", o.Kind, o.Method, o.Pattern)
}

// Key identifies a registered route.
type Key struct{ M, P string }

// Entry is the model's view of one registered route.
type Entry struct {
	Route *fox.Route
	Seq   int // registration sequence number (handler identity)
	TS    int // trailing-slash option the surviving registration was made with
}

// Model is the sequential map model.
type Model map[Key]*Entry

func (m Model) clone() Model {
	c := make(Model, len(m))
	for k, v := range m {
		c[k] = v
	}
	return c
}

// Keys returns the sorted keys.
func (m Model) Keys() []Key {
	ks := make([]Key, 0, len(m))
	for k := range m {
		ks = append(ks, k)
	}
	sort.Slice(ks, func(i, j int) bool {
		if ks[i].M != ks[j].M {
			return ks[i].M < ks[j].M
		}
		return ks[i].P < ks[j].P
	})
	return ks
}

// Conflicts is the documented conflict rule: walk the new pattern's wildcard
// tokens left to right; for the token starting at byte s, the registered routes
// of the same method with the same first s bytes and a wildcard of the same kind
// but different text at s conflict; the first non-empty such set is reported.
func Conflicts(m Model, method, p string) []string {
	for _, w := range ref.Wildcards(p) {
		var a []string
		for k := range m {
			if k.M != method || len(k.P) <= w.Start || k.P[:w.Start] != p[:w.Start] {
				continue
			}
			for _, q := range ref.Wildcards(k.P) {
				if q.Start == w.Start && q.CatchAll == w.CatchAll && k.P[q.Start:q.End] != p[w.Start:w.End] {
					a = append(a, k.P)
				}
			}
		}
		if len(a) > 0 {
			sort.Strings(a)
			return a
		}
	}
	return nil
}

// Cfg selects what the engine checks.
type Cfg struct {
	Methods          []string
	Observers        bool // full observer comparison after every step (C02)
	Snapshots        bool // re-observe every live snapshot after every step (C03)
	QuietTxn         bool // do not call Iter() on the open write transaction when observing it
	LenAfterTruncate bool
	MaxParams        int
	MaxKey           int
}

// Engine couples a router with its model.
type Engine struct {
	Cfg   Cfg
	F     *fox.Router
	Sink  *rt.Sink
	Model Model // committed state
	Txn   *fox.Txn
	TxnM  Model // state seen by the open write transaction
	Pool  []string
	Seq   int
	Snaps []*Snap
	Steps int
	// statistics for the caller
	Stat map[string]int
	// settled transactions kept for "settled-use"
	Settled     []*fox.Txn
	lastRemoved []Key
	noIter      bool
	LastKey     Key // key of the last successful insert or update
}

// New creates an engine on a fresh router.
func New(cfg Cfg, opts ...fox.GlobalOption) (*Engine, error) {
	sink := &rt.Sink{}
	f, err := fox.New(opts...)
	if err != nil {
		return nil, err
	}
	if len(cfg.Methods) == 0 {
		cfg.Methods = []string{"GET", "POST", "PATCH", "FOO"}
	}
	if cfg.MaxParams == 0 {
		cfg.MaxParams = 65535
	}
	if cfg.MaxKey == 0 {
		cfg.MaxKey = 65535
	}
	return &Engine{Cfg: cfg, F: f, Sink: sink, Model: Model{}, Stat: map[string]int{}}, nil
}

func (e *Engine) handler(seq int) fox.HandlerFunc {
	return func(c fox.Context) {
		e.Sink.Hits = append(e.Sink.Hits, rt.Hit{Kind: "route", Pattern: fmt.Sprintf("%s#%d", c.Pattern(), seq), Params: rt.Collect(c)})
		c.Writer().WriteHeader(http.StatusOK)
	}
}

// current returns the model writes go to.
func (e *Engine) current() Model {
	if e.Txn != nil {
		return e.TxnM
	}
	return e.Model
}

func errClass(err error) string {
	switch {
	case err == nil:
		return "ok"
	case errors.Is(err, fox.ErrInvalidRoute):
		return "invalid"
	case errors.Is(err, fox.ErrRouteExist):
		return "exist"
	case errors.Is(err, fox.ErrRouteConflict):
		return "conflict"
	case errors.Is(err, fox.ErrRouteNotFound):
		return "notfound"
	case errors.Is(err, fox.ErrReadOnlyTxn):
		return "readonly"
	case errors.Is(err, fox.ErrInvalidConfig):
		return "invalidconfig"
	}
	return "other:" + err.Error()
}

// ErrDeadlock is returned when a write could not obtain the writer lock.
var ErrDeadlock = errors.New("writer lock not released")

// guarded runs fn in its own goroutine. If it does not finish, the goroutine
// dump decides: blocked in sync.(*Mutex).Lock below a fox frame means the writer
// lock was leaked (a violation); anything else is reported as inconclusive.
func guarded(fn func()) (err error, inconclusive bool) { return Guarded(fn, 60*time.Second) }

// Guarded is the exported form of the writer-lock watchdog (see guarded).
func Guarded(fn func(), wait time.Duration) (err error, inconclusive bool) {
	return GuardedStart(func(func()) { fn() }, wait)
}

// GuardedStart runs fn in its own goroutine; fn calls started() once it owns the writer lock (for example at the
// top of an Updates function). The watchdog only bounds the time until started() or completion: what the
// function does after it has the lock may take as long as it needs.
func GuardedStart(fn func(started func()), wait time.Duration) (err error, inconclusive bool) {
	done := make(chan any, 1)
	begun := make(chan struct{})
	var once sync.Once
	go func() {
		defer func() { done <- recover() }()
		fn(func() { once.Do(func() { close(begun) }) })
	}()
	finish := func(p any) (error, bool) {
		if p != nil {
			panic(p)
		}
		return nil, false
	}
	select {
	case p := <-done:
		return finish(p)
	case <-begun:
		return finish(<-done)
	case <-time.After(wait):
	}
	buf := make([]byte, 1<<20)
	buf = buf[:runtime.Stack(buf, true)]
	for _, g := range strings.Split(string(buf), "\n\n") {
		if strings.Contains(g, "sync.(*Mutex).Lock") && strings.Contains(g, "github.com/tigerwill90/fox.(*Router)") && strings.Contains(g, "hist.GuardedStart") {
			return fmt.Errorf("%w: a write is blocked in sync.(*Mutex).Lock:\n%s", ErrDeadlock, g), false
		}
	}
	stats.MarkInconclusive("watchdog expired without the writer lock being the cause")
	return fmt.Errorf("write did not finish within %v but is not blocked on the writer lock", wait), true
}

// Inconclusive is set when a guarded call timed out for a reason other than the writer lock.
var Inconclusive bool

func (e *Engine) write(fn func()) error {
	if e.Txn != nil {
		fn() // the open transaction already owns the lock
		return nil
	}
	err, inc := guarded(fn)
	if inc {
		Inconclusive = true
	}
	return err
}

func (e *Engine) writeStart(fn func(started func())) error {
	err, inc := GuardedStart(fn, 60*time.Second)
	if inc {
		Inconclusive = true
	}
	return err
}

// valid tells whether the reference grammar accepts the pattern under the engine's limits.
func (e *Engine) valid(p string) bool {
	return ref.ValidPattern(p, e.Cfg.MaxParams, e.Cfg.MaxKey)
}

// OutOfDomain: '_' in a host label (see C10).
func OutOfDomain(p string) bool {
	i := strings.IndexByte(p, '/')
	return i > 0 && strings.Contains(p[:i], "_")
}

type writer interface {
	Handle(method, pattern string, handler fox.HandlerFunc, opts ...fox.RouteOption) (*fox.Route, error)
	HandleRoute(method string, route *fox.Route) error
	Update(method, pattern string, handler fox.HandlerFunc, opts ...fox.RouteOption) (*fox.Route, error)
	UpdateRoute(method string, route *fox.Route) error
	Delete(method, pattern string) (*fox.Route, error)
}

func (e *Engine) w() writer {
	if e.Txn != nil {
		return e.Txn
	}
	return e.F
}

func (e *Engine) addPool(p string) {
	for _, q := range e.Pool {
		if q == p {
			return
		}
	}
	e.Pool = append(e.Pool, p)
}

// Apply executes one operation on router and model and checks its result. It
// returns a description of the first violation, or nil.
func (e *Engine) Apply(op Op) error {
	e.Steps++
	e.Stat["op:"+op.Kind]++
	switch op.Kind {
	case "handle", "handleRoute":
		return e.applyInsert(op)
	case "update", "updateRoute":
		return e.applyUpdate(op)
	case "delete":
		return e.applyDelete(op)
	case "truncate":
		return e.applyTruncate(op)
	case "begin":
		if e.Txn != nil {
			return nil
		}
		var txn *fox.Txn
		if err := e.write(func() { txn = e.F.Txn(true) }); err != nil {
			return err
		}
		e.Txn, e.TxnM = txn, e.Model.clone()
		return nil
	case "commit":
		if e.Txn == nil {
			return nil
		}
		e.Txn.Commit()
		e.Settled = append(e.Settled, e.Txn)
		e.Model, e.Txn, e.TxnM = e.TxnM, nil, nil
		e.Stat["txn:committed"]++
		return nil
	case "abort":
		if e.Txn == nil {
			return nil
		}
		e.Txn.Abort()
		e.Settled = append(e.Settled, e.Txn)
		e.Txn, e.TxnM = nil, nil
		e.Stat["txn:aborted"]++
		return nil
	case "updates":
		return e.applyUpdates(op)
	case "view":
		return e.applyView(op)
	case "snapshot":
		return e.takeSnapshot(op.What)
	case "settled-use":
		return e.settledUse(op)
	case "readonly-write":
		return e.readonlyWrite(op)
	}
	return fmt.Errorf("engine: unknown op %q", op.Kind)
}

func (e *Engine) applyInsert(op Op) error {
	m := e.current()
	k := Key{op.Method, op.Pattern}
	e.addPool(op.Pattern)
	if OutOfDomain(op.Pattern) {
		return nil
	}
	e.Seq++
	seq := e.Seq
	var rte *fox.Route
	var err error
	want := "ok"
	switch {
	case !e.valid(op.Pattern):
		want = "invalid"
	case m[k] != nil:
		want = "exist"
	case Conflicts(m, op.Method, op.Pattern) != nil:
		want = "conflict"
	}
	if werr := e.write(func() {
		if op.Kind == "handle" {
			rte, err = e.w().Handle(op.Method, op.Pattern, e.handler(seq), rt.RouteOptions(op.TS)...)
			return
		}
		var nr *fox.Route
		nr, err = e.F.NewRoute(op.Pattern, e.handler(seq), rt.RouteOptions(op.TS)...)
		if err == nil {
			err = e.w().HandleRoute(op.Method, nr)
			rte = nr
		}
	}); werr != nil {
		return werr
	}
	got := errClass(err)
	if got != want {
		return fmt.Errorf("%s %s %q on %s: model expects %s, got %s (err=%v)", op.Kind, op.Method, op.Pattern, e.describe(m), want, got, err)
	}
	e.Stat["insert:"+want]++
	if want == "conflict" {
		// an error is a value: printing it (what a caller usually does first) leaves what it reports as it was
		_ = err.Error()
		var ce *fox.RouteConflictError
		if !errors.As(err, &ce) {
			return fmt.Errorf("%s %s %q: conflict error is not a *RouteConflictError: %v", op.Kind, op.Method, op.Pattern, err)
		}
		g := append([]string(nil), ce.Matched...)
		sort.Strings(g)
		w := Conflicts(m, op.Method, op.Pattern)
		if strings.Join(g, "\x00") != strings.Join(w, "\x00") {
			return fmt.Errorf("%s %s %q on %s: conflict names %q, the rule gives %q", op.Kind, op.Method, op.Pattern, e.describe(m), g, w)
		}
	}
	if err == nil {
		if rte == nil || rte.Pattern() != op.Pattern {
			return fmt.Errorf("%s %s %q: returned route %v", op.Kind, op.Method, op.Pattern, rte)
		}
		m[k] = &Entry{Route: rte, Seq: seq, TS: tsOf(op)}
		e.LastKey = k
		for _, rk := range e.lastRemoved {
			if rk.M == k.M && commonPrefix(rk.P, k.P) >= 2 {
				e.Stat["nontrivial:insert-after-removal-sharing-prefix"]++
			}
		}
	}
	return nil
}

func commonPrefix(a, b string) int {
	n := 0
	for n < len(a) && n < len(b) && a[n] == b[n] {
		n++
	}
	return n
}

func (e *Engine) applyUpdate(op Op) error {
	m := e.current()
	k := Key{op.Method, op.Pattern}
	e.addPool(op.Pattern)
	if OutOfDomain(op.Pattern) {
		return nil
	}
	e.Seq++
	seq := e.Seq
	want := "ok"
	switch {
	case !e.valid(op.Pattern):
		want = "invalid"
	case m[k] == nil:
		want = "notfound"
	}
	var rte *fox.Route
	var err error
	if werr := e.write(func() {
		if op.Kind == "update" {
			rte, err = e.w().Update(op.Method, op.Pattern, e.handler(seq), rt.RouteOptions(op.TS)...)
			return
		}
		var nr *fox.Route
		nr, err = e.F.NewRoute(op.Pattern, e.handler(seq), rt.RouteOptions(op.TS)...)
		if err == nil {
			err = e.w().UpdateRoute(op.Method, nr)
			rte = nr
		}
	}); werr != nil {
		return werr
	}
	if got := errClass(err); got != want {
		return fmt.Errorf("%s %s %q on %s: model expects %s, got %s (err=%v)", op.Kind, op.Method, op.Pattern, e.describe(m), want, got, err)
	}
	e.Stat["update:"+want]++
	if err == nil {
		if rte == nil || rte == m[k].Route || rte.Pattern() != op.Pattern {
			return fmt.Errorf("%s %s %q: returned route is not a new route for that pattern", op.Kind, op.Method, op.Pattern)
		}
		m[k] = &Entry{Route: rte, Seq: seq, TS: tsOf(op)}
		e.LastKey = k
	}
	return nil
}

func tsOf(op Op) int { return op.TS }

func (e *Engine) applyDelete(op Op) error {
	m := e.current()
	k := Key{op.Method, op.Pattern}
	e.addPool(op.Pattern)
	if OutOfDomain(op.Pattern) {
		return nil
	}
	want := "ok"
	switch {
	case !e.valid(op.Pattern):
		want = "invalid"
	case m[k] == nil:
		want = "notfound"
	}
	var rte *fox.Route
	var err error
	if werr := e.write(func() { rte, err = e.w().Delete(op.Method, op.Pattern) }); werr != nil {
		return werr
	}
	if got := errClass(err); got != want {
		return fmt.Errorf("delete %s %q on %s: model expects %s, got %s (err=%v)", op.Method, op.Pattern, e.describe(m), want, got, err)
	}
	e.Stat["delete:"+want]++
	if err == nil {
		if rte != m[k].Route {
			return fmt.Errorf("delete %s %q: returned route is not the one that was registered", op.Method, op.Pattern)
		}
		delete(m, k)
		e.lastRemoved = append(e.lastRemoved, k)
		if len(e.lastRemoved) > 8 {
			e.lastRemoved = e.lastRemoved[1:]
		}
	} else if rte != nil {
		return fmt.Errorf("delete %s %q failed (%v) but returned a route", op.Method, op.Pattern, err)
	}
	return nil
}

func (e *Engine) applyTruncate(op Op) error {
	m := e.current()
	var err error
	if werr := e.write(func() {
		if e.Txn != nil {
			err = e.Txn.Truncate(op.Methods...)
			return
		}
		err = e.F.Updates(func(txn *fox.Txn) error { return txn.Truncate(op.Methods...) })
	}); werr != nil {
		return werr
	}
	if err != nil {
		return fmt.Errorf("truncate %v returned %v", op.Methods, err)
	}
	for k := range m {
		hit := len(op.Methods) == 0
		for _, mm := range op.Methods {
			if mm == k.M {
				hit = true
			}
		}
		if hit {
			delete(m, k)
			e.lastRemoved = append(e.lastRemoved, k)
			e.Stat["truncate:removed-routes"]++
		}
	}
	if len(e.lastRemoved) > 8 {
		e.lastRemoved = e.lastRemoved[len(e.lastRemoved)-8:]
	}
	return nil
}

type injected struct{ n int }

// applyUpdates runs a managed write transaction: the body inside fn, then the
// chosen ending. Between body steps the router must show the pre-transaction
// state and the transaction its own writes.
func (e *Engine) applyUpdates(op Op) error {
	if e.Txn != nil {
		return nil
	}
	pre := e.Model
	var inner error
	var retErr error
	var recovered any
	sentinel := errors.New("injected error")
	pv := &injected{e.Steps}
	if werr := e.writeStart(func(started func()) {
		defer func() { recovered = recover() }()
		retErr = e.F.Updates(func(txn *fox.Txn) error {
			started() // the transaction owns the writer lock from here on
			e.Txn, e.TxnM = txn, pre.clone()
			for _, b := range op.Body {
				if inner = e.Apply(b); inner != nil {
					return nil
				}
				if inner = e.CheckState(); inner != nil {
					return nil
				}
			}
			switch op.End {
			case "err":
				return sentinel
			case "panic":
				panic(pv)
			case "goexit":
				// the goroutine running the function is terminated (what t.FailNow or t.Skip do inside a callback): the function
				// never returns, deferred calls run, nothing is recovered
				runtime.Goexit()
			}
			return nil
		})
	}); werr != nil {
		return werr
	}
	txnModel := e.TxnM
	settled := e.Txn
	e.Txn, e.TxnM = nil, nil
	if settled != nil {
		e.Settled = append(e.Settled, settled)
	}
	if inner != nil {
		return fmt.Errorf("inside Updates: %w", inner)
	}
	writes := 0
	for _, b := range op.Body {
		switch b.Kind {
		case "handle", "handleRoute", "update", "updateRoute", "delete", "truncate":
			writes++
		}
	}
	switch op.End {
	case "ok":
		if recovered != nil || retErr != nil {
			return fmt.Errorf("Updates whose function returned nil: err=%v panic=%v", retErr, recovered)
		}
		e.Model = txnModel
		e.Stat["txn:updates-committed"]++
	case "err":
		if recovered != nil || retErr != sentinel {
			return fmt.Errorf("Updates whose function returned an error: got err=%v panic=%v, want the function's error", retErr, recovered)
		}
		e.Stat["txn:updates-error"]++
		if writes >= 2 {
			e.Stat["nontrivial:multi-write-txn-ended-by-error-or-panic"]++
		}
	case "panic":
		if recovered != any(pv) {
			return fmt.Errorf("Updates whose function panicked with %p: recovered %v (err=%v), want the same value re-raised", pv, recovered, retErr)
		}
		e.Stat["txn:updates-panic"]++
		if writes >= 2 {
			e.Stat["nontrivial:multi-write-txn-ended-by-error-or-panic"]++
		}
	case "goexit":
		// the function never returned nil, so the transaction was never committed: the model stays as it was
		e.Stat["txn:updates-goexit"]++
		if writes >= 2 {
			e.Stat["nontrivial:multi-write-txn-ended-by-error-or-panic"]++
		}
	}
	return nil
}

// applyView runs a managed read-only transaction; its body may try writes, which must fail with ErrReadOnlyTxn.
func (e *Engine) applyView(op Op) error {
	if e.Txn != nil {
		return nil
	}
	var inner error
	var recovered any
	pv := &injected{e.Steps}
	var retErr error
	sentinel := errors.New("injected error")
	func() {
		defer func() { recovered = recover() }()
		retErr = e.F.View(func(txn *fox.Txn) error {
			if inner = e.observe("View transaction", txnObserver{txn}, e.Model, true); inner != nil {
				return nil
			}
			if inner = e.tryReadonlyWrites(txn, op); inner != nil {
				return nil
			}
			switch op.End {
			case "err":
				return sentinel
			case "panic":
				panic(pv)
			}
			return nil
		})
	}()
	if inner != nil {
		return inner
	}
	switch op.End {
	case "panic":
		if recovered != any(pv) {
			return fmt.Errorf("View whose function panicked: recovered %v, want the same value re-raised", recovered)
		}
	case "err":
		if retErr != sentinel || recovered != nil {
			return fmt.Errorf("View whose function returned an error: err=%v panic=%v", retErr, recovered)
		}
	default:
		if retErr != nil || recovered != nil {
			return fmt.Errorf("View: err=%v panic=%v", retErr, recovered)
		}
	}
	e.Stat["txn:view-"+op.End]++
	return nil
}

func (e *Engine) tryReadonlyWrites(txn *fox.Txn, op Op) error {
	p, m := op.Pattern, op.Method
	if p == "" {
		p, m = "/readonly", "GET"
	}
	if OutOfDomain(p) {
		return nil
	}
	if _, err := txn.Handle(m, p, e.handler(0)); !errors.Is(err, fox.ErrReadOnlyTxn) {
		return fmt.Errorf("Handle through a read-only transaction returned %v, want ErrReadOnlyTxn", err)
	}
	if _, err := txn.Update(m, p, e.handler(0)); !errors.Is(err, fox.ErrReadOnlyTxn) {
		return fmt.Errorf("Update through a read-only transaction returned %v, want ErrReadOnlyTxn", err)
	}
	if _, err := txn.Delete(m, p); !errors.Is(err, fox.ErrReadOnlyTxn) {
		return fmt.Errorf("Delete through a read-only transaction returned %v, want ErrReadOnlyTxn", err)
	}
	if err := txn.Truncate(); !errors.Is(err, fox.ErrReadOnlyTxn) {
		return fmt.Errorf("Truncate through a read-only transaction returned %v, want ErrReadOnlyTxn", err)
	}
	if rte, err := e.F.NewRoute(p, e.handler(0)); err == nil {
		if err := txn.HandleRoute(m, rte); !errors.Is(err, fox.ErrReadOnlyTxn) {
			return fmt.Errorf("HandleRoute through a read-only transaction returned %v, want ErrReadOnlyTxn", err)
		}
		if err := txn.UpdateRoute(m, rte); !errors.Is(err, fox.ErrReadOnlyTxn) {
			return fmt.Errorf("UpdateRoute through a read-only transaction returned %v, want ErrReadOnlyTxn", err)
		}
	}
	txn.Commit()
	e.Stat["readonly-writes-refused"]++
	return nil
}

func (e *Engine) readonlyWrite(op Op) error {
	txn := e.F.Txn(false)
	defer txn.Abort()
	return e.tryReadonlyWrites(txn, op)
}

// mustRefuse: a settled write transaction refuses further use. As built, every method panics with ErrSettledTxn; a
// method that returns an error matching ErrSettledTxn instead would also be a refusal.
func mustRefuse(name string, fn func() error) (err error) {
	defer func() {
		r := recover()
		if r == nil {
			return
		}
		err = nil
		if re, ok := r.(error); !ok || !errors.Is(re, fox.ErrSettledTxn) {
			err = fmt.Errorf("%s on a settled write transaction panicked with %v, want ErrSettledTxn", name, r)
		}
	}()
	if e := fn(); e == nil || !errors.Is(e, fox.ErrSettledTxn) {
		return fmt.Errorf("%s on a settled write transaction neither panicked nor returned ErrSettledTxn (err=%v)", name, e)
	}
	return nil
}

func (e *Engine) settledUse(op Op) error {
	if len(e.Settled) == 0 {
		return nil
	}
	txn := e.Settled[len(e.Settled)-1]
	if len(e.Settled) > 4 {
		e.Settled = e.Settled[len(e.Settled)-4:]
	}
	p, m := op.Pattern, op.Method
	if p == "" {
		p, m = "/settled", "GET"
	}
	req := rt.NewRequest(rt.Req{Method: m, Path: "/settled"})
	checks := []struct {
		name string
		fn   func() error
	}{
		{"Handle", func() error { _, err := txn.Handle(m, p, e.handler(0)); return err }},
		{"Update", func() error { _, err := txn.Update(m, p, e.handler(0)); return err }},
		{"Delete", func() error { _, err := txn.Delete(m, p); return err }},
		{"Truncate", func() error { return txn.Truncate() }},
		{"HandleRoute", func() error { return txn.HandleRoute(m, nil) }},
		{"UpdateRoute", func() error { return txn.UpdateRoute(m, nil) }},
		{"Has", func() error { _ = txn.Has(m, p); return nil }},
		{"Route", func() error { _ = txn.Route(m, p); return nil }},
		{"Reverse", func() error { _, _ = txn.Reverse(m, "", "/settled"); return nil }},
		{"Lookup", func() error {
			_, _, _ = txn.Lookup(rt.Writer(&rt.NopWriter{H: http.Header{}}, req), req)
			return nil
		}},
		{"Iter", func() error { _ = txn.Iter(); return nil }},
		{"Len", func() error { _ = txn.Len(); return nil }},
	}
	for _, c := range checks {
		if err := mustRefuse(c.name, c.fn); err != nil {
			return err
		}
	}
	// Commit and Abort are no-ops, Snapshot returns nil; none of them may touch the router or its lock
	txn.Commit()
	txn.Abort()
	if s := txn.Snapshot(); s != nil {
		return fmt.Errorf("Snapshot of a settled transaction returned a transaction")
	}
	e.Stat["settled-txn-refused-use"]++
	return nil
}

func (e *Engine) describe(m Model) string {
	var sb strings.Builder
	sb.WriteString("{")
	for i, k := range m.Keys() {
		if i > 0 {
			sb.WriteString(", ")
		}
		sb.WriteString(k.M + " " + k.P)
	}
	sb.WriteString("}")
	return sb.String()
}

// Close settles an open transaction.
func (e *Engine) Close() {
	if e.Txn != nil {
		e.Txn.Abort()
		e.Txn = nil
	}
	for _, s := range e.Snaps {
		s.close()
	}
}
