package hist

import (
	"encoding/json"
	"fmt"
	"strings"

	"pgregory.net/rapid"

	"verif/gen"
	"verif/stats"
)

// GenCfg weights the operation generator.
type GenCfg struct {
	Txn       bool // unmanaged write transactions (begin/commit/abort)
	Managed   bool // Updates / View with every ending
	Snapshots bool
	Misuse    bool // settled-use, readonly-write
	HostW     int  // 1 in HostW+1 fresh patterns has a hostname
	MaxBody   int
}

var tsChoices = []int{0, 0, 0, 1, 2, 4}

func (e *Engine) genPattern(t *rapid.T) string {
	// a write strictly below (or exactly a prefix of) a route that currently exists: the shapes where
	// copy-on-write has to clone a node that already carries a route
	if ks := e.current().Keys(); len(ks) > 0 && gen.Chance(t, 1, 5, "below") {
		k := gen.Pick(t, ks, "parent")
		// half of the time right below the key that was written last (same transaction, same cached nodes)
		if _, ok := e.current()[e.LastKey]; ok && gen.Chance(t, 1, 2, "belowlast") {
			k = e.LastKey
		}
		if !strings.Contains(k.P, "*{") || !strings.HasSuffix(k.P, "}") {
			return strings.TrimSuffix(k.P, "/") + "/" + gen.Pick(t, gen.Statics, "childseg")
		}
	}
	if len(e.Pool) > 0 && gen.IntR(t, 0, 9, "reuse") < 5 {
		return gen.Pick(t, e.Pool, "pooled")
	}
	hw := 3
	p := gen.Pattern(t, e.Pool, hw, true)
	if gen.IntR(t, 0, 5, "rename") == 0 {
		p = gen.Rename(p)
	}
	return p
}

func (e *Engine) genWrite(t *rapid.T) Op {
	m := gen.Pick(t, e.Cfg.Methods, "method")
	k := gen.IntR(t, 0, 99, "wkind")
	// deletes and updates mostly aim at a key that exists (in the state the write will see)
	pickKey := func(pct int) (string, string) {
		ks := e.current().Keys()
		if len(ks) > 0 && gen.Chance(t, pct, 100, "existing") {
			k := gen.Pick(t, ks, "key")
			return k.M, k.P
		}
		return m, e.genPattern(t)
	}
	switch {
	case k < 40:
		mm, p := pickKey(8)
		if gen.Chance(t, 1, 12, "conflicting") {
			p = gen.Rename(p)
		}
		return Op{Kind: "handle", Method: mm, Pattern: p, TS: gen.Pick(t, tsChoices, "ts")}
	case k < 46:
		return Op{Kind: "handleRoute", Method: m, Pattern: e.genPattern(t)}
	case k < 58:
		mm, p := pickKey(60)
		return Op{Kind: "update", Method: mm, Pattern: p, TS: gen.Pick(t, tsChoices, "ts")}
	case k < 62:
		mm, p := pickKey(60)
		return Op{Kind: "updateRoute", Method: mm, Pattern: p}
	case k < 95:
		mm, p := pickKey(65)
		return Op{Kind: "delete", Method: mm, Pattern: p}
	default:
		n := gen.IntR(t, 0, 2, "ntrunc")
		var ms []string
		for i := 0; i < n; i++ {
			ms = append(ms, gen.Pick(t, e.Cfg.Methods, "tm"))
		}
		return Op{Kind: "truncate", Methods: ms}
	}
}

const wideFan = "0123456789ABCDEFGHIJKLMNOPQRSTUVWXYZabcdefghijklmnopqrs"

var snapKinds = []string{"router-iter", "txn-iter", "view", "txn-snapshot"}

// GenOp draws the next operation given the engine's current state.
func (e *Engine) GenOp(t *rapid.T, g GenCfg) Op {
	k := gen.IntR(t, 0, 99, "opkind")
	if e.Txn != nil {
		switch {
		case k < 12:
			return Op{Kind: "commit"}
		case k < 20:
			return Op{Kind: "abort"}
		case k < 38 && g.Snapshots:
			return Op{Kind: "snapshot", What: gen.Pick(t, snapKinds, "snap")}
		}
		return e.genWrite(t)
	}
	switch {
	case k < 10 && g.Txn:
		return Op{Kind: "begin"}
	case k < 22 && g.Managed:
		n := gen.IntR(t, 0, max(g.MaxBody, 1), "nbody")
		op := Op{Kind: "updates", End: gen.Pick(t, []string{"ok", "ok", "ok", "err", "err", "panic", "panic", "goexit"}, "end")}
		for i := 0; i < n; i++ {
			if g.Snapshots && gen.IntR(t, 0, 5, "bodysnap") == 0 {
				op.Body = append(op.Body, Op{Kind: "snapshot", What: gen.Pick(t, snapKinds, "snap")})
				continue
			}
			op.Body = append(op.Body, e.genWrite(t))
		}
		return op
	case k < 26 && g.Managed:
		return Op{Kind: "view", End: gen.Pick(t, []string{"ok", "err", "panic"}, "end"), Method: "GET", Pattern: e.genPattern(t)}
	case k < 40 && g.Snapshots:
		return Op{Kind: "snapshot", What: gen.Pick(t, snapKinds, "snap")}
	case k < 44 && g.Misuse:
		return Op{Kind: "settled-use", Method: "GET", Pattern: e.genPattern(t)}
	case k < 47 && g.Misuse:
		return Op{Kind: "readonly-write", Method: gen.Pick(t, e.Cfg.Methods, "method"), Pattern: e.genPattern(t)}
	}
	return e.genWrite(t)
}

// History is the replayable form of a state-machine run.
type History struct {
	Cfg Cfg  `json:"cfg"`
	Ops []Op `json:"ops"`
}

// Step applies one operation, notes it for the snapshot rule and checks every observer.
func (e *Engine) Step(op Op) error {
	if err := e.Apply(op); err != nil {
		return fmt.Errorf("step %d (%v): %w", e.Steps, op, err)
	}
	switch op.Kind {
	case "handle", "handleRoute", "update", "updateRoute", "delete":
		e.NoteWrite(op.Method, op.Pattern)
	case "updates":
		for _, b := range op.Body {
			e.NoteWrite(b.Method, b.Pattern)
		}
	}
	if err := e.CheckState(); err != nil {
		return fmt.Errorf("after step %d (%v): %w", e.Steps, op, err)
	}
	return nil
}

// Replay runs a saved history from scratch.
func Replay(raw json.RawMessage) error {
	var h History
	if err := json.Unmarshal(raw, &h); err != nil {
		return err
	}
	e, err := New(h.Cfg)
	if err != nil {
		return err
	}
	defer e.Close()
	if err := e.CheckState(); err != nil {
		return err
	}
	for _, op := range h.Ops {
		if err := e.Step(op); err != nil {
			return err
		}
	}
	return nil
}

// RunRapid is the shared state machine: it draws operations, applies them and
// records the history so that a failure is replayable without rapid. after is
// called with the finished engine (for classification).
func RunRapid(t *rapid.T, kind string, cfg Cfg, g GenCfg, after func(e *Engine, h *History)) {
	e, err := New(cfg)
	if err != nil {
		t.Fatalf("engine: %v", err)
	}
	defer e.Close()
	h := &History{Cfg: e.Cfg}
	defer stats.Guard(kind, func() any { return h })()
	fail := func(err error) {
		if err == nil {
			return
		}
		stats.Fail(kind, h, "%v", err)
		if Inconclusive {
			// a timeout that is not the writer lock: do not let rapid shrink into it
			fmt.Println("INCONCLUSIVE-TIMEOUT", err)
		}
		t.Fatalf("%v", err)
	}
	fail(e.CheckState())
	if gen.Chance(t, 1, 16, "widefan") {
		// one history in sixteen starts on a node with more than 50 children (where child search and edge updates switch
		// algorithm): 55 sibling routes registered by one managed transaction; later writes aim below existing keys
		op := Op{Kind: "updates", End: "ok"}
		for _, c := range wideFan {
			op.Body = append(op.Body, Op{Kind: "handle", Method: e.Cfg.Methods[0], Pattern: "/w/" + string(c)})
		}
		// a parameter and a catch-all among the 55 siblings, then writes that go through those two edges once the node is that wide
		op.Body = append(op.Body, Op{Kind: "handle", Method: e.Cfg.Methods[0], Pattern: "/w/{p}"}, Op{Kind: "handle", Method: e.Cfg.Methods[0], Pattern: "/w/*{c}"})
		h.Ops = append(h.Ops, op)
		fail(e.Step(op))
		op = Op{Kind: "updates", End: "ok", Body: []Op{
			{Kind: "handle", Method: e.Cfg.Methods[0], Pattern: "/w/{p}/x"},
			{Kind: "handle", Method: e.Cfg.Methods[0], Pattern: "/w/*{c}/y"},
			{Kind: "update", Method: e.Cfg.Methods[0], Pattern: "/w/{p}"},
			{Kind: "handle", Method: e.Cfg.Methods[0], Pattern: "/w/{p}/y"},
			{Kind: "handle", Method: e.Cfg.Methods[0], Pattern: "/w/{p}/z/{q}"},
		}}
		h.Ops = append(h.Ops, op)
		fail(e.Step(op))
		// a registration that conflicts with five routes at once (same position, another parameter name)
		op = Op{Kind: "handle", Method: e.Cfg.Methods[0], Pattern: "/w/{other}"}
		h.Ops = append(h.Ops, op)
		fail(e.Step(op))
		stats.Class("history-starts-on-a-node-with-55-children")
	} else if gen.Chance(t, 1, 16, "deepchain") {
		// or on a chain of 30 nested routes, every level a route of its own (deeper than the iterators' preallocated stacks),
		// under the last method of the configuration, which is then truncated and partly registered again
		m := e.Cfg.Methods[len(e.Cfg.Methods)-1]
		op := Op{Kind: "updates", End: "ok"}
		p := "/d"
		for i := 0; i < 30; i++ {
			p += "/" + string(wideFan[i])
			op.Body = append(op.Body, Op{Kind: "handle", Method: m, Pattern: p})
		}
		h.Ops = append(h.Ops, op)
		fail(e.Step(op))
		op = Op{Kind: "truncate", Methods: []string{m}}
		h.Ops = append(h.Ops, op)
		fail(e.Step(op))
		op = Op{Kind: "updates", End: "ok", Body: []Op{{Kind: "handle", Method: m, Pattern: "/d/0/1/2"}, {Kind: "handle", Method: m, Pattern: "/d/0/1"}}}
		h.Ops = append(h.Ops, op)
		fail(e.Step(op))
		stats.Class("history-starts-on-a-chain-of-30-nested-routes-then-truncate")
	} else if gen.Chance(t, 1, 12, "infixfamily") {
		// or on an infix catch-all route that is the prefix of two others: one transaction first registers a route below it
		// (which copies the node the look-ups resume from after the catch-all) and then replaces the route itself, once or twice
		m := e.Cfg.Methods[0]
		for _, p := range []string{"/i/*{c}/m", "/i/*{c}/m/x", "/i/{p}/n"} {
			op := Op{Kind: "handle", Method: m, Pattern: p}
			h.Ops = append(h.Ops, op)
			fail(e.Step(op))
		}
		op := Op{Kind: "updates", End: "ok", Body: []Op{
			{Kind: "handle", Method: m, Pattern: "/i/*{c}/m/y"},
			{Kind: "update", Method: m, Pattern: "/i/*{c}/m"},
			{Kind: "update", Method: m, Pattern: "/i/*{c}/m/x"},
			{Kind: "update", Method: m, Pattern: "/i/*{c}/m"},
		}}
		h.Ops = append(h.Ops, op)
		fail(e.Step(op))
		stats.Class("history-starts-on-an-infix-catch-all-family-updated-inside-one-transaction")
	}
	t.Repeat(map[string]func(*rapid.T){
		"step": func(t *rapid.T) {
			op := e.GenOp(t, g)
			h.Ops = append(h.Ops, op)
			fail(e.Step(op))
		},
	})
	stats.EvalN(len(h.Ops))
	if after != nil {
		after(e, h)
	}
}
