package hist

import (
	"errors"
	"fmt"
	"net/http"
	"slices"
	"sort"
	"strings"

	"github.com/tigerwill90/fox"

	"verif/ref"
	"verif/rt"
)

// observer is the read API shared by *fox.Router and *fox.Txn.
type observer interface {
	Has(method, pattern string) bool
	Route(method, pattern string) *fox.Route
	Len() int
	Iter() fox.Iter
	Reverse(method, host, path string) (*fox.Route, bool)
	Lookup(w fox.ResponseWriter, r *http.Request) (*fox.Route, fox.ContextCloser, bool)
}

type txnObserver struct{ *fox.Txn }

// iterOnly adapts a bare Iter (no Has/Route/Len of its own): those are derived from Routes/All.
type iterObserver struct {
	it fox.Iter
}

func (o iterObserver) Iter() fox.Iter { return o.it }
func (o iterObserver) Route(method, pattern string) *fox.Route {
	for _, r := range o.it.Routes(slices.Values([]string{method}), pattern) {
		return r
	}
	return nil
}
func (o iterObserver) Has(method, pattern string) bool { return o.Route(method, pattern) != nil }
func (o iterObserver) Len() int {
	n := 0
	for range o.it.All() {
		n++
	}
	return n
}
func (o iterObserver) Reverse(method, host, path string) (*fox.Route, bool) {
	for _, r := range o.it.Reverse(slices.Values([]string{method}), host, path) {
		return r, false
	}
	return nil, false
}
func (o iterObserver) Lookup(fox.ResponseWriter, *http.Request) (*fox.Route, fox.ContextCloser, bool) {
	return nil, nil, false
}

// CheckState compares every observer with the model: the router with the
// committed model, the open transaction (if any) with the transaction's model,
// and every live snapshot with the model frozen when it was taken.
func (e *Engine) CheckState() error {
	// Commit and Abort are documented no-ops on a read-only transaction, however stale its view is: ending the kept
	// read-only transactions and snapshots again after every step must neither publish their view nor retire them.
	for i, s := range e.Snaps {
		if s.txn == nil {
			continue
		}
		// ... and it stays read-only: a write through it is refused without effect
		if _, err := s.txn.Handle("GET", "/readonly-probe", e.handler(0)); !errors.Is(err, fox.ErrReadOnlyTxn) {
			return fmt.Errorf("snapshot %s taken at step %d: Handle through it returned %v, want ErrReadOnlyTxn", s.What, s.takenAt, err)
		}
		if err := s.txn.Truncate(); !errors.Is(err, fox.ErrReadOnlyTxn) {
			return fmt.Errorf("snapshot %s taken at step %d: Truncate through it returned %v, want ErrReadOnlyTxn", s.What, s.takenAt, err)
		}
		if (e.Steps+i)%2 == 0 {
			s.txn.Commit()
		} else {
			s.txn.Abort()
		}
		e.Stat["readonly-txn-ended-again"]++
	}
	if e.Cfg.Observers {
		if err := e.observe("router", e.F, e.Model, true); err != nil {
			return err
		}
		if e.Txn != nil {
			// Txn.Iter() resets the transaction's writable-node cache, so observing through it after every
			// step would hide bugs that need the cache to survive between writes: QuietTxn histories only
			// use Len/Has/Route on the open transaction.
			e.noIter = e.Cfg.QuietTxn
			err := e.observe("open write transaction", txnObserver{e.Txn}, e.TxnM, true)
			e.noIter = false
			if err != nil {
				return err
			}
		}
	}
	if e.Cfg.Snapshots {
		for _, s := range e.Snaps {
			if err := s.recheck(e); err != nil {
				return err
			}
		}
	}
	return nil
}

func ptr(r *fox.Route) string {
	if r == nil {
		return "<nil>"
	}
	return fmt.Sprintf("%s@%p", r.Pattern(), r)
}

// observe compares one observer with a model. pool limits the Has/Route sweep.
func (e *Engine) observe(name string, o observer, m Model, lenToo bool) error {
	return e.observeWith(name, o, m, lenToo, e.Pool)
}

func (e *Engine) observeWith(name string, o observer, m Model, lenToo bool, pool []string) error {
	methods := e.Cfg.Methods
	fail := func(format string, a ...any) error {
		return fmt.Errorf("%s vs model %s: %s", name, e.describe(m), fmt.Sprintf(format, a...))
	}
	if lenToo {
		if n := o.Len(); n != len(m) {
			return fail("Len() = %d, model holds %d", n, len(m))
		}
	}
	// Has / Route over pool x methods
	for _, p := range pool {
		if OutOfDomain(p) {
			continue
		}
		for _, mm := range methods {
			want := m[Key{mm, p}]
			got := o.Route(mm, p)
			if (want == nil) != (got == nil) || (want != nil && want.Route != got) {
				w := "<nil>"
				if want != nil {
					w = ptr(want.Route)
				}
				return fail("Route(%s, %q) = %s, model has %s", mm, p, ptr(got), w)
			}
			if h := o.Has(mm, p); h != (want != nil) {
				return fail("Has(%s, %q) = %v", mm, p, h)
			}
		}
	}
	// Reverse for requests instantiated from the two most recent patterns, against the documented matching rules applied to
	// the model's route set: an observer answers from the state it stands for, whichever entry point is asked
	type probe struct {
		mm         string
		host, path string
		want       *fox.Route // the route a direct match must give; nil when nothing may be yielded
		judged     bool
	}
	var probes []probe
	for i := len(pool) - 1; i >= 0 && i >= len(pool)-2; i-- {
		host, path, ok := Probe(pool[i])
		if !ok {
			continue
		}
		for _, mm := range methods {
			var pats []string
			for _, k := range m.Keys() {
				if k.M == mm {
					pats = append(pats, k.P)
				}
			}
			res, ok := ref.LookupAll(pats, ref.StripHost(host), path)
			if !ok {
				continue
			}
			pr := probe{mm: mm, host: host, path: path}
			switch {
			case res.Route >= 0 && !res.Tsr:
				pr.want, pr.judged = m[Key{mm, pats[res.Route]}].Route, true
			case res.Route < 0:
				pr.judged = true
			}
			if !pr.judged {
				continue // a trailing-slash recommendation: what is reported depends on the route's options
			}
			probes = append(probes, pr)
			rte, tsr := o.Reverse(mm, host, path)
			if pr.want != nil && (rte != pr.want || tsr) {
				return fail("Reverse(%s, %q, %q) = %s tsr=%v, the matching rules select %s", mm, host, path, ptr(rte), tsr, ptr(pr.want))
			}
			if pr.want == nil && rte != nil && !tsr {
				return fail("Reverse(%s, %q, %q) = %s as a direct match, the model has no route matching that request", mm, host, path, ptr(rte))
			}
		}
	}
	if e.noIter {
		return nil
	}
	it := o.Iter()
	for _, pr := range probes {
		var got []*fox.Route
		for _, r := range it.Reverse(slices.Values([]string{pr.mm}), pr.host, pr.path) {
			got = append(got, r)
		}
		if pr.want != nil && (len(got) != 1 || got[0] != pr.want) {
			return fail("Iter.Reverse(%s, %q, %q) yields %d route(s) %v, the matching rules select %s", pr.mm, pr.host, pr.path, len(got), got, ptr(pr.want))
		}
		if pr.want == nil && len(got) != 0 {
			return fail("Iter.Reverse(%s, %q, %q) yields %s, the model has no route matching that request", pr.mm, pr.host, pr.path, ptr(got[0]))
		}
	}
	// All
	seen := map[Key]bool{}
	for mm, r := range it.All() {
		k := Key{mm, r.Pattern()}
		if seen[k] {
			return fail("Iter.All yields %s %q twice", mm, r.Pattern())
		}
		seen[k] = true
		if want := m[k]; want == nil || want.Route != r {
			return fail("Iter.All yields %s %s which the model does not hold (or holds as another route)", mm, ptr(r))
		}
	}
	if len(seen) != len(m) {
		for _, k := range m.Keys() {
			if !seen[k] {
				return fail("Iter.All misses %s %q", k.M, k.P)
			}
		}
	}
	// Methods
	wantM := map[string]bool{}
	for k := range m {
		wantM[k.M] = true
	}
	gotM := map[string]bool{}
	for mm := range it.Methods() {
		if gotM[mm] {
			return fail("Iter.Methods yields %s twice", mm)
		}
		gotM[mm] = true
	}
	if len(gotM) != len(wantM) {
		return fail("Iter.Methods = %v, model has methods %v", keys(gotM), keys(wantM))
	}
	for mm := range wantM {
		if !gotM[mm] {
			return fail("Iter.Methods = %v, model has methods %v", keys(gotM), keys(wantM))
		}
	}
	if len(pool) == 0 {
		return nil
	}
	// Prefix over every prefix of the most recent pattern, Routes for that pattern
	last := pool[len(pool)-1]
	for cut := 0; cut <= len(last); cut++ {
		pre := last[:cut]
		want := map[Key]bool{}
		for k := range m {
			if strings.HasPrefix(k.P, pre) {
				want[k] = true
			}
		}
		got := map[Key]bool{}
		for mm, r := range it.Prefix(slices.Values(methods), pre) {
			k := Key{mm, r.Pattern()}
			if got[k] {
				return fail("Iter.Prefix(%q) yields %s %q twice", pre, mm, r.Pattern())
			}
			got[k] = true
			if !want[k] || m[k].Route != r {
				return fail("Iter.Prefix(%q) yields %s %s, which is not a registered route with that prefix", pre, mm, ptr(r))
			}
		}
		if len(got) != len(want) {
			return fail("Iter.Prefix(%q) yields %d routes, the model has %d with that prefix", pre, len(got), len(want))
		}
	}
	if !OutOfDomain(last) {
		got := map[string]*fox.Route{}
		for mm, r := range it.Routes(slices.Values(methods), last) {
			got[mm] = r
		}
		for _, mm := range methods {
			var want *fox.Route
			if en := m[Key{mm, last}]; en != nil {
				want = en.Route
			}
			if got[mm] != want {
				return fail("Iter.Routes(%q) yields %s for %s, model has %s", last, ptr(got[mm]), mm, ptr(want))
			}
		}
	}
	return nil
}

func keys(m map[string]bool) []string {
	var out []string
	for k := range m {
		out = append(out, k)
	}
	sort.Strings(out)
	return out
}

// Probe instantiates a pattern with fixed values (a deterministic request for snapshot re-observation).
func Probe(p string) (host, path string, ok bool) {
	if !ref.ValidPattern(p, 65535, 65535) || OutOfDomain(p) {
		return "", "", false
	}
	var sb strings.Builder
	last := 0
	for _, w := range ref.Wildcards(p) {
		sb.WriteString(p[last:w.Start])
		if w.CatchAll {
			sb.WriteString("v/w")
		} else {
			sb.WriteString("v")
		}
		last = w.End
	}
	sb.WriteString(p[last:])
	s := sb.String()
	i := strings.IndexByte(s, '/')
	return s[:i], s[i:], true
}

// Snap is one live snapshot with everything that was observable through it when it was taken.
type Snap struct {
	What    string
	obs     observer
	txn     *fox.Txn // to settle on close (read-only transactions)
	frozen  Model
	pool    []string
	lookups []string // recorded probe answers (transaction snapshots and iterators)
	takenAt int
	hasLen  bool
	touched bool // a later write shared a prefix with a route of the snapshot
}

func (s *Snap) close() {
	if s.txn != nil {
		s.txn.Abort()
	}
}

func (s *Snap) probes(e *Engine) []string {
	var out []string
	for _, p := range s.pool {
		host, path, ok := Probe(p)
		if !ok {
			continue
		}
		for _, q := range []string{path, toggle(path)} {
			for _, m := range e.Cfg.Methods[:2] {
				rte, tsr := s.obs.Reverse(m, host, q)
				line := fmt.Sprintf("Reverse(%s,%q,%q)=%s tsr=%v", m, host, q, ptr(rte), tsr)
				req := rt.NewRequest(rt.Req{Method: m, Host: host, Path: q})
				if r2, cc, tsr2 := s.obs.Lookup(rt.Writer(&rt.NopWriter{H: http.Header{}}, req), req); r2 != nil {
					var ps []string
					for p := range cc.Params() {
						ps = append(ps, p.Key+"="+p.Value)
					}
					cc.Close()
					line += fmt.Sprintf(" Lookup=%s tsr=%v params=%v", ptr(r2), tsr2, ps)
				}
				out = append(out, line)
			}
		}
	}
	return out
}

func toggle(p string) string {
	if len(p) > 1 && strings.HasSuffix(p, "/") {
		return p[:len(p)-1]
	}
	return p + "/"
}

func (e *Engine) takeSnapshot(what string) error {
	s := &Snap{What: what, pool: append([]string(nil), e.Pool...), takenAt: e.Steps}
	switch what {
	case "router-iter":
		s.obs, s.frozen = iterObserver{e.F.Iter()}, e.Model.clone()
	case "txn-iter":
		if e.Txn != nil {
			s.obs, s.frozen = iterObserver{e.Txn.Iter()}, e.TxnM.clone()
		} else {
			s.What = "router-iter"
			s.obs, s.frozen = iterObserver{e.F.Iter()}, e.Model.clone()
		}
	case "view":
		t := e.F.Txn(false)
		s.obs, s.txn, s.frozen, s.hasLen = txnObserver{t}, t, e.Model.clone(), true
	case "txn-snapshot":
		if e.Txn != nil {
			t := e.Txn.Snapshot()
			if t == nil {
				return fmt.Errorf("Snapshot of an open write transaction returned nil")
			}
			s.obs, s.txn, s.frozen, s.hasLen = txnObserver{t}, t, e.TxnM.clone(), true
			s.What = "txn-snapshot(inside write txn)"
		} else {
			t := e.F.Txn(false).Snapshot()
			s.obs, s.txn, s.frozen, s.hasLen = txnObserver{t}, t, e.Model.clone(), true
		}
	default:
		return fmt.Errorf("engine: unknown snapshot kind %q", what)
	}
	s.lookups = s.probes(e)
	if err := e.observeWith("fresh snapshot "+s.What, s.obs, s.frozen, s.hasLen, s.pool); err != nil {
		return err
	}
	e.Snaps = append(e.Snaps, s)
	e.Stat["snapshot:"+s.What]++
	if len(e.Snaps) > 5 {
		e.Snaps[0].close()
		e.Snaps = e.Snaps[1:]
	}
	return nil
}

func (s *Snap) recheck(e *Engine) error {
	name := fmt.Sprintf("snapshot %s taken at step %d, re-observed at step %d", s.What, s.takenAt, e.Steps)
	if err := e.observeWith(name, s.obs, s.frozen, s.hasLen, s.pool); err != nil {
		return err
	}
	if s.txn != nil && (e.Steps+s.takenAt)%2 == 0 {
		// a Snapshot of a read-only transaction is a point-in-time copy of THAT transaction's state, however long ago it was opened
		sn := s.txn.Snapshot()
		if sn == nil {
			return fmt.Errorf("%s: Snapshot() of the read-only transaction returned nil", name)
		}
		if err := e.observeWith(name+", through a Snapshot() of it taken now", txnObserver{sn}, s.frozen, s.hasLen, s.pool); err != nil {
			return err
		}
		e.Stat["snapshot-of-stale-readonly-txn"]++
	}
	now := s.probes(e)
	if len(now) != len(s.lookups) {
		return fmt.Errorf("%s: %d probe answers, %d when taken", name, len(now), len(s.lookups))
	}
	for i := range now {
		if now[i] != s.lookups[i] {
			return fmt.Errorf("%s: lookup through the snapshot changed: was %s, now %s", name, s.lookups[i], now[i])
		}
	}
	e.Stat["snapshot-reobservations"]++
	return nil
}

// NoteWrite lets snapshots know that a write touched pattern p (for the non-triviality rule of C03).
func (e *Engine) NoteWrite(method, p string) {
	for _, s := range e.Snaps {
		for k := range s.frozen {
			if k.M == method && commonPrefix(k.P, p) >= 2 && !s.touched {
				s.touched = true
				e.Stat["nontrivial:write-shares-prefix-with-snapshotted-route"]++
				if strings.Contains(s.What, "inside write txn") || s.What == "txn-iter" {
					e.Stat["nontrivial:...and-snapshot-taken-inside-write-txn"]++
				}
			}
		}
	}
}
