"""Per-property run plans for /verif/check.

Each run is one invocation (or `shards` parallel invocations with different rapid seeds) of the
property's test binary: `run` is the -test.run regexp, `checks` the number of rapid cases per
shard, `steps` the average state-machine length, `race` builds with the race detector.
"""

def R(name, run, **kw):
    d = dict(name=name, run=run)
    d.update(kw)
    return d

REPLAY = R("replay", "^TestReplay$", timeout=300)

PLAN = {
    "C01": dict(
        pkg="c01", level="exploration",
        technique="differential testing against an independent list-based reference matcher (rapid route-set/request generation + exhaustive small-alphabet enumeration), plus agreement of all lookup entry points",
        level_text="Generated route sets that share radix nodes (prefix-extending growth, hostnames, several methods, fan-out across the "
                   "50-child switch) and requests derived from them are routed by fox and by a ~150-line character-level reference matcher "
                   "that knows nothing about trees; route, absence of route and parameters are compared, and ServeHTTP, Lookup, Reverse, "
                   "Iter.Reverse on router, read transaction and uncommitted write transaction must agree. Small pattern pools x all short "
                   "paths are enumerated exhaustively.",
        level_note="Trusts harness/ref/match.go as the reading of the documented priority rules; requests on which three readings of an "
                   "undocumented corner (catch-all value starting with '/') disagree are not judged and are counted.",
        level_more='Later additions (seeding rounds 12-21): request targets with raw bytes, wide nodes (more than 50 children), patterns sharing 31-100 leading bytes, literal closing braces in static text, and a second router whose routes are partly committed and partly held in an open write transaction.',
        rule="cases: (route set, request) pairs; non-trivial = the reference backtracked at least once, or a wildcard captured a value, or "
             "hostname routes were tried before falling back to path-only routes; distinct by (method, sorted patterns, host, path)",
        assumptions=["reference matcher encodes the documented rules", "request paths have no empty segments; Host values are well formed"],
        quick=[REPLAY,
               R("exhaustive", "^TestExhaustive$", env={"C01_EXH_SEGS": 2, "C01_EXH_SUBSET": 2, "C01_EXH_PATHLEN": 6}, timeout=900),
               R("random", "^(TestRandom|TestFanOut)$", checks=20000, shards=3, timeout=900)],
        thorough=[REPLAY,
                  R("exhaustive", "^TestExhaustive$", shards=16, env={"C01_EXH_SEGS": 2, "C01_EXH_SUBSET": 3, "C01_EXH_PATHLEN": 7}, timeout=3000),
                  R("random", "^(TestRandom|TestFanOut)$", checks=150000, shards=16, timeout=3000)],
    ),
    "C02": dict(
        pkg="c02", level="exploration",
        technique="model-based stateful testing (rapid state machine) against a sequential map model with the documented conflict rule",
        level_text="Random histories of Handle/HandleRoute/Update/UpdateRoute/Delete/Truncate, direct or grouped in committed, aborted, failed and "
                   "panicking transactions, over pattern pools that grow by byte-level prefix extension (so nodes split and merge), with conflicts, "
                   "invalid strings, hostnames and four methods. Every return value, error class and conflict list is compared with the model and "
                   "after every step Len, Has, Route, Iter.All, Methods, Prefix (every prefix of the latest pattern) and Routes are compared on the router and on the open transaction.",
        level_note="Trusts the map model and the reference grammar; histories are sampled (bounded length), not enumerated.",
        rule="cases: operation histories; counted evaluations are operations; non-trivial history = contains an insert sharing a >=2-byte prefix with a "
             "recently removed key, or a conflict, or an aborted/failed/panicked transaction; distinct by the operation list",
        assumptions=["map model + conflict rule as stated in the property", "'_' in host labels not judged"],
        quick=[REPLAY,
               R("model", "^(TestModel|TestNote)$", checks=2500, steps=40, shards=3, timeout=900),
               R("fanout", "^TestFanOut$", checks=150, timeout=900),
               R("exhaustive-histories", "^TestExhaustiveHistories$", env={"C02_EXH_LEN": 3}, timeout=900)],
        thorough=[REPLAY,
                  R("model", "^(TestModel|TestNote)$", checks=15000, steps=100, shards=16, timeout=3000),
                  R("fanout", "^TestFanOut$", checks=600, shards=8, timeout=3000),
                  R("exhaustive-histories", "^TestExhaustiveHistories$", shards=16, env={"C02_EXH_LEN": 4, "C02_EXH_EXTRA": "/a/{p}/y,{h}.b/"}, timeout=3000)],
    ),
    "C03": dict(
        pkg="c03", level="exploration",
        technique="model-based stateful testing with snapshot re-observation (every live snapshot is re-read in full after every later step), a >4096-node transaction, and concurrent re-iteration under the race detector",
        level_text="The C02 state machine is extended with snapshot actions (Router.Iter, Txn.Iter inside write transactions, read-only transactions kept open, "
                   "Txn.Snapshot) at arbitrary points, also between the writes of one transaction. Each snapshot must equal the model frozen at its creation - "
                   "All, Methods, Prefix, Routes, Has, Route, Len and recorded Lookup/Reverse answers with parameters - after every later write, commit or abort. "
                   "A 6000-write transaction crosses the 4096-entry writable-node cache with snapshots before and after eviction.",
        level_note="Histories are sampled; the concurrent part samples schedules under -race.",
        rule="cases: operation histories with snapshot actions; evaluations are operations; non-trivial history = after a snapshot a write touched a route sharing a "
             ">=2-byte prefix with a route in that snapshot (so a node on a shared path was copied); distinct by the operation list",
        assumptions=["map model", "a snapshot is identified with the model state at its creation"],
        quick=[REPLAY,
               R("snapshots", "^TestSnapshots$", checks=700, steps=40, timeout=900),
               R("large-txn", "^TestLargeTxn$", checks=3, timeout=900),
               R("concurrent", "^TestConcurrentReaders$", race=True, env={"C03_CONC_ROUNDS": 2500}, timeout=900)],
        thorough=[REPLAY,
                  R("snapshots", "^TestSnapshots$", checks=2500, steps=80, shards=16, timeout=3000),
                  R("large-txn", "^TestLargeTxn$", checks=12, shards=4, env={"C03_LARGE_ROUTES": 9000}, timeout=3000),
                  R("concurrent", "^TestConcurrentReaders$", race=True, shards=4, env={"C03_CONC_ROUNDS": 5000}, timeout=3000)],
    ),
    "C04": dict(
        pkg="c04", level="fault_enumeration",
        technique="model-based stateful testing of transactions with fault injection (panic / error after every prefix of a transaction body) and a concurrent all-or-nothing group invariant under the race detector",
        level_text="Transactions with generated bodies (writes, nested snapshots) are ended by Commit, Abort, a returned error or an injected panic; for generated bodies "
                   "the fault is injected after every prefix. Between every step the router must equal the pre-transaction model and the transaction the model plus "
                   "its own writes; afterwards all or nothing; the next write must obtain the lock (goroutine-dump verdict, not a timeout); settled and read-only "
                   "transactions must refuse use. Concurrently, writers replace groups of 8 routes per transaction and readers (Iter pass, View, 405 Allow) must never see a mixed group.",
        level_note="Fault points are the boundaries between operations of a transaction body (not inside one fox call); schedules of the concurrent part are sampled.",
        rule="cases: operation histories; evaluations are operations (plus concurrent observations); non-trivial = a transaction with >= 2 writes ended by abort, error or panic, "
             "or a fault-injection sweep over every cut; distinct by the operation list",
        assumptions=["map model", "Updates/View re-raise the identical panic value"],
        quick=[REPLAY,
               R("transactions", "^TestTransactions$", checks=5000, steps=40, timeout=900),
               R("every-cut", "^TestEveryCut$", checks=400, timeout=900),
               R("concurrent", "^TestConcurrentGroups$", race=True, env={"C04_CONC_ROUNDS": 3000}, timeout=900)],
        thorough=[REPLAY,
                  R("transactions", "^TestTransactions$", checks=10000, steps=100, shards=16, timeout=3000),
                  R("every-cut", "^TestEveryCut$", checks=3000, shards=8, timeout=3000),
                  R("concurrent", "^TestConcurrentGroups$", race=True, shards=4, env={"C04_CONC_ROUNDS": 6000}, timeout=3000)],
    ),
    "C07": dict(
        pkg="c07", level="exploration",
        technique="differential (oracle-free) testing of two routers holding the same set: random mutation history versus fresh insertion in random order, and all permutations of small sets",
        level_text="Router A runs a generated history (inserts, updates, deletes, truncates, committed/aborted/failed/panicking transactions); "
                   "router B is filled with the surviving set in a random order with identical options; both must answer every probe "
                   "(all methods incl. OPTIONS, hosts, slash-toggled paths) with the same Lookup route/params/tsr, status, handler, Location and Allow set. "
                   "Sets of 2-5 routes are additionally inserted in every permutation.",
        level_note="No reference needed; the history engine's model is only used to know the surviving set. Equality of outcomes is judged on sampled probes derived from every pattern used in the history.",
        level_more='Later additions: a wide family (51-53 static siblings, then wildcard edges), a second uncommon verb and a verb family whose oldest verb is emptied again.',
        rule="cases: (options, history, insertion order, probes); counted evaluations are probes; non-trivial = the history deleted a key sharing a >=2-byte prefix "
             "with a surviving key of the same method (a node merge), or a permutation case; distinct by options+history+order or options+set",
        assumptions=["both routers are given identical options per surviving route"],
        quick=[REPLAY,
               R("histories", "^TestTwoHistories$", checks=10000, shards=3, timeout=900),
               R("permutations", "^TestPermutations$", checks=2500, shards=2, timeout=900)],
        thorough=[REPLAY,
                  R("histories", "^TestTwoHistories$", checks=30000, shards=16, timeout=3000),
                  R("permutations", "^TestPermutations$", checks=10000, shards=16, timeout=3000)],
    ),
    "C08": dict(
        pkg="c08", level="exploration",
        technique="differential testing of trailing-slash detection and dispatch against the reference matcher applied to the slash-adjusted path, plus a metamorphic relation (irrelevant routes) and a resolve-the-Location round trip",
        level_text="For generated route sets, trailing-slash options (global and per route), methods (GET, POST, CONNECT, custom) and encoded "
                   "request targets with reserved characters and query strings, the reference matcher run on the path and on its "
                   "slash-adjusted form predicts the tsr flag, the route and its parameters; the dispatch rules of the property predict "
                   "served / redirected / unmatched; the Location header is parsed and resolved like a client would. Small pools are enumerated exhaustively (thorough tier: also pairs of "
                   "three-segment patterns with adjacent and mid-segment catch-alls against every path over {/ a} up to length 10 - the shape class of repaired defect H).",
        level_note="Trusts the reference matcher and net/url's reference resolution; ambiguity (catch-all value starting with '/') is counted and not judged.",
        level_more="Later additions: raw non-ASCII queries, route sets registered in one transaction with tolerated refusals, for every request the iterator's reverse look-up over all methods at once compared with Reverse method by method, and requests whose URL path is empty (192 enumerated cases).",
        rule="cases: (options, route set, request target); non-trivial = the reference prescribes a trailing-slash action and the method has "
             ">= 2 routes; distinct by (options, method, sorted patterns, host, target)",
        assumptions=["routing path = URL.RawPath when present, URL.Path otherwise (documented in fox)", "no empty path segments"],
        quick=[REPLAY,
               R("exhaustive", "^(TestExhaustive|TestEmptyPath)$", env={"C08_EXH_SEGS": 2, "C08_EXH_SUBSET": 2, "C08_EXH_PATHLEN": 6}, timeout=900),
               R("random", "^TestRandom$", checks=25000, timeout=900)],
        thorough=[REPLAY,
                  R("empty-path", "^TestEmptyPath$", timeout=300),
                  R("exhaustive", "^TestExhaustive$", shards=16, env={"C08_EXH_SEGS": 2, "C08_EXH_SUBSET": 3, "C08_EXH_PATHLEN": 7}, timeout=3000),
                  # deeper shapes (three segments, adjacent catch-alls, mid-segment catch-alls): the class in which defect H lived
                  R("exhaustive-deep", "^TestExhaustive$", shards=16, timeout=3000,
                    env={"C08_EXH_NAME": "-deep", "C08_EXH_SEGS": 3, "C08_EXH_SUBSET": 2, "C08_EXH_PATHLEN": 10,
                         "C08_EXH_TOKENS": "a,{p%d},*{c%d},a*{c%d}", "C08_EXH_PATHALPHA": "/,a"}),
                  R("random", "^TestRandom$", checks=200000, shards=16, timeout=3000)],
    ),
    "C09": dict(
        pkg="c09", level="exploration",
        technique="differential testing of hostname matching against the reference matcher over generated and exhaustively enumerated Host values, plus a metamorphic relation (Host ignored when the method has no hostname routes)",
        level_text="Route sets mixing hostname and path-only patterns are probed with Host values that are exact, carry a port or trailing dot, "
                   "extend / truncate / neighbour a registered hostname, are IP literals or empty; the reference requires label-for-label equality "
                   "after stripping and decides when the path-only fallback applies. All hosts over {a b .} up to a bound are enumerated against all pattern pairs.",
        level_note="Well-formed Host values only (malformed host:port is documented as 'unchanged'); arbitrary strings are used only in the metamorphic relation.",
        level_more='Later additions: method roots with more than fifty children (hostnames differing in their first byte), request hosts longer than 255 bytes, hostnames sharing 31-100 bytes, registration through transactions and detours, and Iter.Reverse over all methods compared with Reverse method by method.',
        rule="cases: (route set, request); non-trivial = the Host extends, truncates, contains or neighbours a registered hostname, or a hostname route was selected; distinct by (method, sorted patterns, host, path)",
        assumptions=["reference matcher + StripHost (port and one trailing dot) encode the documented rules"],
        quick=[REPLAY,
               R("exhaustive", "^TestExhaustive$", env={"C09_HOSTLEN": 4}, timeout=900),
               R("random", "^TestRandom$", checks=25000, timeout=900)],
        thorough=[REPLAY,
                  R("exhaustive", "^TestExhaustive$", shards=16, env={"C09_HOSTLEN": 6}, timeout=3000),
                  R("random", "^TestRandom$", checks=200000, shards=16, timeout=3000)],
    ),
    "C10": dict(
        pkg="c10", level="exploration",
        technique="differential testing of the pattern parser against an independent split-based grammar recogniser (exhaustive small-alphabet enumeration, rapid generation, native fuzzing) plus an instantiate-route-substitute-back round trip",
        level_text="Every string over a pattern-relevant 8-symbol alphabet (and host-only strings over 6 symbols) up to a bounded length, "
                   "random token soups, damaged valid patterns, long hosts and names around the limits under explicit parameter limits, patterns sitting exactly at, one below and one above "
                   "twelve values of both limits including the defaults (and around 65536 and 131072 wildcards or name bytes), and "
                   "arbitrary bytes are submitted to NewRoute/Handle/Delete and to a reference recogniser; each accepted pattern is "
                   "registered alone and its generated instantiations must be routed back to it with parameters that reproduce the request.",
        level_note="Trusts harness/ref/grammar.go as the documented grammar; '_' in host labels (documentation and parser disagree, property silent) is not judged and counted.",
        level_more="Later additions: limits given twice, every valid pattern also registered through NewRoute + HandleRoute + UpdateRoute and twice in one transaction under a new verb, wildcard chains, an adjacency family around the two-catch-all rule, and the iterator's reverse look-up on the single registered route.",
        rule="cases: (string, parameter limits) for the grammar half, (accepted pattern, wildcard values) for the round trip; non-trivial = the string "
             "contains a wildcard opener or a hostname / the pattern has at least one wildcard; distinct by limits+string or pattern+values",
        assumptions=["reference grammar = documented grammar", "round-trip values: no '/' in parameter values, no '.' in host values, catch-all values without empty segments"],
        quick=[REPLAY,
               R("exhaustive", "^(TestGrammarExhaustive|TestRoundTripExhaustive|TestLimitBoundaries|TestAdjacencyFamily|TestRoundTripWildcardChains)$", env={"C10_LEN": 7, "C10_HOSTLEN": 8, "C10_RT_LEN": 8}, timeout=900),
               R("random", "^(TestGrammarRandom|TestGrammarBytes|TestRoundTrip)$", checks=60000, timeout=900)],
        thorough=[REPLAY,
                  R("exhaustive", "^TestGrammarExhaustive$", shards=16, env={"C10_LEN": 7, "C10_HOSTLEN": 9}, timeout=3000),
                  R("exhaustive-rt", "^(TestRoundTripExhaustive|TestLimitBoundaries|TestAdjacencyFamily|TestRoundTripWildcardChains)$", env={"C10_RT_LEN": 9}, timeout=3000),
                  R("random", "^(TestGrammarRandom|TestGrammarBytes|TestRoundTrip)$", checks=200000, shards=16, timeout=3000),
                  dict(name="fuzz", fuzz="FuzzNewRoute", fuzztime="120s")],
    ),
    "C11": dict(
        pkg="c11", level="exploration",
        technique="differential testing of 404/405/OPTIONS dispatch and the Allow set against a per-method oracle built from the reference matcher (rapid generation + exhaustive small configurations)",
        level_text="For route sets spread over standard and custom methods, per-route and global trailing-slash modes and the four "
                   "method-not-allowed/auto-OPTIONS combinations, the reference matcher decides per method whether a route serves the host and path; "
                   "the property's dispatch rules then give the expected handler kind and the exact Allow set, and the context seen inside each special handler is inspected.",
        level_note="CONNECT routes are kept out (whether a CONNECT route reachable only by ignoring a trailing slash 'serves' is not settled); with both options on, "
                   "OPTIONS is required in the 405 Allow set (the policy fox pins in its own tests; a router that never added it would fail fox's suite first); "
                   "OPTIONS * with only OPTIONS routes is not judged.",
        level_more="Later additions: fox's own 405 and OPTIONS handlers left in place (observed by a middleware), request header fields (CORS pre-flight and others), preset Allow values, NoMethod switched off again, one-transaction registration, and Iter.Reverse(Iter.Methods()) compared with Reverse per method.",
        rule="cases: (options, route set, request); non-trivial = a 405/OPTIONS answer where >= 2 methods serve the probe or a route contributes by ignoring a trailing slash; distinct by (options, routes, request)",
        assumptions=["reference matcher", "Allow is compared as a set"],
        quick=[REPLAY,
               R("exhaustive", "^TestExhaustive$", timeout=900),
               R("random", "^TestRandom$", checks=25000, timeout=900)],
        thorough=[REPLAY,
                  R("exhaustive", "^TestExhaustive$", timeout=3000),
                  R("random", "^TestRandom$", checks=200000, shards=16, timeout=3000)],
    ),
    "C17": dict(
        pkg="c17", level="exploration",
        technique="exhaustive small-alphabet enumeration + rapid random generation + native fuzzing against a split-and-stack reference implementation",
        level_text="Every string over two 4-symbol alphabets up to a bounded length is compared with an independent lexical "
                   "reference, plus random long inputs around the 128-byte buffer switch and arbitrary bytes; idempotence and "
                   "the redirect guard are checked on the same inputs. Exhaustive below the bound, sampled above it.",
        level_note="Trusts the 20-line reference in harness/ref/cleanpath.go as the meaning of 'canonical form'; absence of "
                   "violations beyond the enumerated bound is sampled, not proven.",
        rule="inputs: every string over {/ . a %} and over {/ . a e-acute} up to the bound in notes, rapid-generated 90-300 byte "
             "token strings around the 128-byte buffer switch, arbitrary bytes, and router requests for the redirect guard; "
             "non-trivial = the input contains an empty, '.' or '..' element (distinct by input string), or a redirect-guard case "
             "where a trailing-slash action was recommended for a non-canonical path (distinct by routes+path)",
        assumptions=["the lexical definition in harness/ref/cleanpath.go is the specification (it is the one stated in the property)"],
        quick=[REPLAY,
               R("exhaustive", "^TestExhaustive$", env={"C17_LEN_ASCII": 9, "C17_LEN_RUNE": 7}, timeout=600),
               R("random", "^(TestRandomLong|TestRandomBytes|TestRedirectGuard)$", checks=30000, timeout=600)],
        thorough=[REPLAY,
                  R("exhaustive", "^TestExhaustive$", shards=16, env={"C17_LEN_ASCII": 12, "C17_LEN_RUNE": 9}, timeout=1800),
                  R("random", "^(TestRandomLong|TestRandomBytes|TestRedirectGuard)$", checks=200000, shards=16, timeout=1800),
                  dict(name="fuzz", fuzz="FuzzCleanPath", fuzztime="90s")],
    ),
}

# Per-package fragments: harness/cNN/plan_entry.py defines ENTRY = {"CNN": dict(...)} using R and REPLAY.
import glob as _glob, os as _os
for _f in sorted(_glob.glob(_os.path.join(_os.path.dirname(_os.path.abspath(__file__)), "c[0-9][0-9]", "plan_entry.py"))):
    _ns = {"R": R, "REPLAY": REPLAY}
    exec(compile(open(_f).read(), _f, "exec"), _ns)
    PLAN.update(_ns["ENTRY"])

HOOK_COMMITS = []

_TODO = "check not built yet in this round (harness under construction); planned, see DESIGN.md section 4"
NOT_APPLICABLE = {p: _TODO for p in ["C%02d" % i for i in range(1, 21)] if p not in PLAN}
