ENTRY = {
    "C20": dict(
        pkg="c20", level="exploration",
        technique="differential (same router and request with and without the Logger, on an own recording http.ResponseWriter) plus an oracle written from the property "
                  "text over the records received by a capturing slog.Handler with a global sequence counter; rapid generation over the product of the dimensions and an "
                  "exhaustive sweep of every status 200..599 x handler kind x resolver outcome",
        level_text="Each case is a router configuration (Logger installed globally, for all scopes, for exactly the scope of the handler kind, for every other scope, or as a "
                   "route option; optionally a Recovery middleware outside it as in DefaultOptions; router-wide resolver absent / nil / succeeding / failing; per-route resolver "
                   "inherited / nil / succeeding / failing), a request (method, Host, path, query, well-formed or junk RemoteAddr) aimed at one handler kind (route, also reached "
                   "by ignoring a trailing slash; 404; 405; trailing-slash redirect; automatic OPTIONS; custom or fox's built-in handlers) and a handler behaviour "
                   "(explicit status with class boundaries, 1xx then status, body only through Write/WriteString/ReadFrom, nothing, 1xx only, 101, redirect with/without/with empty "
                   "Location, Context.Redirect, Location on non-3xx, status after body, two statuses, panic with string / error / http.ErrAbortHandler before or after a partial response). "
                   "Judged: number of records (1, or 0 when the handler panicked or the Logger does not wrap that kind), record emitted after the handler returned, status attribute = "
                   "final status the underlying writer received, method/host/path, level per status class, location attribute iff 3xx with non-empty Location header, message per "
                   "applicable resolver, identical response (status, 1xx list, headers, body) and identical panic value (also as seen by an outer Recovery) with and without the Logger.",
        level_note="The dimensions are sampled (their product is small, the sweep enumerates status x kind x resolver outcome completely for one request shape). Not judged and counted: "
                   "status and level when only 1xx statuses were written, level for 101, the message when no resolver applies and RemoteAddr is not IP:port, the location attribute on "
                   "non-3xx responses, the latency attribute. DefaultOptions itself is not exercised in the main generator (its Logger writes to the process stdout through an internal handler); "
                   "its ordering Recovery-outside-Logger is reproduced with CustomRecoveryWithLogHandler + LoggerWithHandler, and what fox.Logger() itself prints is read from a child "
                   "process by TestDefaultLogger (one [FOX] line per request, about that request, for paths up to 40 000 bytes).",
        level_more='Later additions: behaviours delegating to the no-route handler, failing body writes, a mounted second router, late-enabled debug level, failing resolver chains.',
        rule="cases: (logger installation, resolvers, request, handler kind, behaviour script); non-trivial = a status at a class boundary (199/200/299/300/399/400/499/500) was passed to "
             "WriteHeader, or the applicable resolver fails, or the route carries its own resolver option; distinct by the JSON form of the case",
        assumptions=["status 'actually recorded' = first non-informational status received by the underlying http.ResponseWriter, 200 when the handler returns without one (net/http semantics)",
                     "which resolver applies: the matched route's inside route handlers, the router-wide one in 404/405/redirect/OPTIONS handlers (Context.ClientIP documentation)",
                     "remote address = netip.ParseAddrPort(RemoteAddr).Addr(), IPv4-mapped addresses printed as IPv4 (net.IPAddr.String)",
                     "headers are not modified after the status was written"],
        quick=[REPLAY,
               R("sweep", "^(TestKinds|TestSweep)$", timeout=300),
               R("random", "^TestRandom$", checks=150000, timeout=600),
               R("default-logger", "^TestDefaultLogger$", checks=40, timeout=600)],
        thorough=[REPLAY,
                  R("sweep", "^(TestKinds|TestSweep)$", timeout=600),
                  R("random", "^TestRandom$", checks=250000, shards=16, timeout=3000),
                  R("default-logger", "^TestDefaultLogger$", checks=300, shards=8, timeout=3000)],
    ),
}
