// C20 — the Logger middleware reports what actually happened.
//
// Every case is one router configuration + one request + one handler behaviour (a small script of
// response-writer operations). The case is served twice, with and without the Logger middleware, on an
// own recording http.ResponseWriter. The oracle is written from the property text:
//
//   - exactly one record per request whose wrapped handler returned, none when the handler panicked or
//     when the Logger does not wrap the handler kind, emitted after the handler returned (global sequence counter);
//   - status attribute = final status the underlying writer received (200 when nothing / only a body was written),
//     method, host, path = the request's;
//   - level INFO/DEBUG/WARN/ERROR for 2xx/3xx/4xx/5xx, `location` attribute present iff 3xx and the response
//     carries a non-empty Location header (and then equal to it);
//   - message = address of the applicable resolver (route resolver inside route handlers, router-wide one elsewhere),
//     the IP of RemoteAddr when there is none, "unknown" when it fails;
//   - response (status, 1xx list, headers, body) and panic value identical with and without the Logger.
package c20

import (
	"bytes"
	"context"
	"encoding/json"
	"errors"
	"fmt"
	"github.com/tigerwill90/fox/clientip"
	"io"
	"log"
	"log/slog"
	"net"
	"net/http"
	"net/http/httptest"
	"net/netip"
	"net/url"
	"os"
	"os/exec"
	"reflect"
	"regexp"
	"sort"
	"strconv"
	"strings"
	"testing"

	"github.com/tigerwill90/fox"
	"pgregory.net/rapid"

	"verif/gen"
	"verif/stats"
)

func TestMain(m *testing.M) {
	if raw := os.Getenv("C20_DL_CASE"); raw != "" {
		// child process of TestDefaultLogger: serve the sequence with fox.Logger() writing to this process's stdout/stderr
		defaultLoggerChild(raw)
		os.Exit(0)
	}
	stats.Init("C20")
	// fox's recorder reports superfluous WriteHeader calls through the std logger; keep the run logs readable
	log.SetOutput(io.Discard)
	stats.RegisterReplay("default-logger", func(raw json.RawMessage) error {
		var c DLCase
		if err := json.Unmarshal(raw, &c); err != nil {
			return err
		}
		return checkDefaultLogger(&c)
	})
	stats.RegisterReplay("logger", func(raw json.RawMessage) error {
		var c Case
		if err := json.Unmarshal(raw, &c); err != nil {
			return err
		}
		return check(&c, false)
	})
	os.Exit(stats.Finish(m.Run()))
}

func TestReplay(t *testing.T) { stats.RunReplays(t) }

// ---------------------------------------------------------------- case

// ResolverCfg describes a client IP resolver. Mode: "none" (no option), "nil" (option given with a nil resolver),
// "ok" (returns IP/Zone), "fail" (returns an error, with an address as well when WithIP); for the route
// additionally "inherit" (no route option).
type ResolverCfg struct {
	Mode   string `json:"mode"`
	IP     string `json:"ip,omitempty"`
	Zone   string `json:"zone,omitempty"`
	Err    string `json:"err,omitempty"`
	WithIP bool   `json:"with_ip,omitempty"`
	// Chain (mode "fail"): the failing resolver is a real clientip.Chain of two single-header resolvers whose headers the
	// request does not carry, so the failure is the chain's own joined error
	Chain bool `json:"chain,omitempty"`
}

// Op is one step of a handler behaviour.
//
//	hdr      Header().Set(Key, Val)
//	wh       WriteHeader(Code)
//	write    body write of Data; Mode "bytes" (Write), "string" (WriteString), "readfrom" (ReadFrom)
//	redirect Context.Redirect(Code, Val)
//	panic    Mode "string" (panic(Val)), "error" (a fresh error value), "abort" (http.ErrAbortHandler)
//	flush    Mode "flush" (http.Flusher.Flush) or "flusherror" (FlushError) on c.Writer()
type Op struct {
	Op   string  `json:"op"`
	Key  string  `json:"key,omitempty"`
	Val  string  `json:"val,omitempty"`
	Code int     `json:"code,omitempty"`
	Data stats.B `json:"data,omitempty"`
	Mode string  `json:"mode,omitempty"`
}

type Case struct {
	Kind       string `json:"kind"`    // route, noroute, nomethod, redirect, options
	Install    string `json:"install"` // global, for-all, for-kind, for-others, route
	Recovery   bool   `json:"recovery,omitempty"`
	IgnoreTS   bool   `json:"ignore_ts,omitempty"`
	ReaderFrom bool   `json:"reader_from,omitempty"`
	Flusher    string `json:"flusher,omitempty"` // how the underlying writer can flush: "" (not at all), "flush", "flusherror", "both"
	// Prior: the same handler (same method, host and path) first serves another request, which it answers 302 with a Location
	// header and for which every configured resolver succeeds with 203.0.113.250; the judged request comes second.
	Prior bool `json:"prior,omitempty"`
	// RawPath: when set, the escaped form of Path the server received (URL.RawPath); Path stays the decoded request path,
	// which is what the record carries
	RawPath string `json:"raw_path,omitempty"`
	// SwapWriter: before doing anything else the handler replaces the context's writer (Context.SetWriter) by a fresh one
	// built on the raw underlying writer, and answers through it: the record carries what that writer recorded.
	SwapWriter bool `json:"swap_writer,omitempty"`
	// LateDebug: the slog handler refuses DEBUG records while the middleware and the router are being built and accepts every
	// level from then on (a slog.LevelVar lowered at run time): which records a handler accepts is its answer at logging time.
	LateDebug bool `json:"late_debug,omitempty"`
	// Mounted: the handler does not answer itself but enters a second router with its own c.Writer() and request (a mounted
	// sub-router); the script runs in that router's handler. The record of the outer Logger carries what was sent all the same.
	Mounted    bool        `json:"mounted,omitempty"`
	// FailWrites: the connection is gone: every body write reaches the server-side writer (which sends the header that goes
	// with it) and fails with no byte accepted. Handlers typically answer a failed write with an error status.
	FailWrites bool `json:"fail_writes,omitempty"`
	Global     ResolverCfg `json:"global_resolver"`
	Route      ResolverCfg `json:"route_resolver"`
	Method     string      `json:"method"`
	Host       string      `json:"host"`
	Path       string      `json:"path"`
	Query      string      `json:"query,omitempty"`
	RemoteAddr string      `json:"remote_addr"`
	Beh        string      `json:"behaviour"` // label; "default" = fox's built-in handler of that kind, Script unused
	Script     []Op        `json:"script,omitempty"`
}

var scopeOf = map[string]fox.HandlerScope{
	"route": fox.RouteHandler, "noroute": fox.NoRouteHandler, "nomethod": fox.NoMethodHandler,
	"redirect": fox.RedirectHandler, "options": fox.OptionsHandler,
}

const pattern = "/r/{id}"

// ---------------------------------------------------------------- recording writer

// under is the http.ResponseWriter handed to ServeHTTP. It keeps net/http's rules: 1xx (except 101) are
// informational and may repeat, the first other status is final, a body write without a status means 200.
type under struct {
	h     http.Header
	codes []int // every WriteHeader call, in order
	info  []int // informational statuses received before the final one
	final int   // 0 = no final status received
	snap  http.Header
	body  bytes.Buffer
	fail  bool // body writes fail after the header went out
}

func (w *under) Header() http.Header { return w.h }

func (w *under) setFinal(code int) {
	if w.final != 0 {
		return
	}
	if code >= 100 && code <= 199 && code != http.StatusSwitchingProtocols {
		w.info = append(w.info, code)
		return
	}
	w.final = code
	w.snap = w.h.Clone()
}

func (w *under) WriteHeader(code int) {
	w.codes = append(w.codes, code)
	w.setFinal(code)
}

func (w *under) Write(b []byte) (int, error) {
	w.setFinal(http.StatusOK)
	if w.fail {
		return 0, errors.New("c20: write on a closed connection")
	}
	return w.body.Write(b)
}

// status the client ends up with: the server sends 200 when the handler returns without any status.
func (w *under) status() int {
	if w.final == 0 {
		return http.StatusOK
	}
	return w.final
}

func (w *under) headers() http.Header {
	if w.snap != nil {
		return w.snap
	}
	return w.h
}

type underRF struct{ *under }

// ReadFrom behaves like net/http's response.ReadFrom: the implicit 200 is only sent when there is something to send
// (an empty source writes nothing at all, not even a header).
func (w underRF) ReadFrom(r io.Reader) (int64, error) {
	var tmp bytes.Buffer
	n, err := tmp.ReadFrom(r)
	if n > 0 {
		w.setFinal(http.StatusOK)
		w.body.Write(tmp.Bytes())
	}
	return n, err
}

// flushing behaves like net/http's: a flush sends the header, with the implicit 200 when the handler sent none.
type uFL struct{ u *under }

func (f uFL) Flush() { f.u.setFinal(http.StatusOK) }

type uFE struct{ u *under }

func (f uFE) FlushError() error { f.u.setFinal(http.StatusOK); return nil }

func mkWriter(u *under, readerFrom bool, flusher string) http.ResponseWriter {
	type rw = http.ResponseWriter
	if readerFrom {
		switch flusher {
		case "flush":
			return struct {
				underRF
				uFL
			}{underRF{u}, uFL{u}}
		case "flusherror":
			return struct {
				underRF
				uFE
			}{underRF{u}, uFE{u}}
		case "both":
			return struct {
				underRF
				uFL
				uFE
			}{underRF{u}, uFL{u}, uFE{u}}
		}
		return underRF{u}
	}
	switch flusher {
	case "flush":
		return struct {
			*under
			uFL
		}{u, uFL{u}}
	case "flusherror":
		return struct {
			*under
			uFE
		}{u, uFE{u}}
	case "both":
		return struct {
			*under
			uFL
			uFE
		}{u, uFL{u}, uFE{u}}
	}
	return rw(u)
}

// ---------------------------------------------------------------- capturing slog handler

type record struct {
	seq   int
	level slog.Level
	msg   string
	keys  []string
	attrs map[string]slog.Value
}

type run struct {
	seq      int
	records  []record
	hits     int // how often the probe (innermost middleware, just around the handler) was entered
	scope    fox.HandlerScope
	routeNil bool
	hEnd     int   // sequence number taken when the wrapped handler returned (0 = it did not return)
	errVal   error // the value a "panic error" step panics with
	recCalls int   // how often the outer Recovery middleware handed a panic to its recovery function
	recVal   any
	outCalls int // how often a panic came out of the Logger position (observed by a middleware just outside it, re-raised unchanged)
	outVal   any
	panicked bool // ServeHTTP panicked
	panicVal any
	w        *under
}

type capture struct {
	r    *run
	open *bool // nil: every level accepted from the start; otherwise DEBUG is refused until *open
}

func (h capture) Enabled(_ context.Context, l slog.Level) bool {
	return h.open == nil || *h.open || l >= slog.LevelInfo
}
func (h capture) WithAttrs([]slog.Attr) slog.Handler { return h }
func (h capture) WithGroup(string) slog.Handler      { return h }
func (h capture) Handle(_ context.Context, r slog.Record) error {
	h.r.seq++
	rec := record{seq: h.r.seq, level: r.Level, msg: r.Message, attrs: map[string]slog.Value{}}
	r.Attrs(func(a slog.Attr) bool {
		rec.keys = append(rec.keys, a.Key)
		rec.attrs[a.Key] = a.Value
		return true
	})
	h.r.records = append(h.r.records, rec)
	return nil
}

type nopHandler struct{}

func (nopHandler) Enabled(context.Context, slog.Level) bool  { return false }
func (nopHandler) Handle(context.Context, slog.Record) error { return nil }
func (h nopHandler) WithAttrs([]slog.Attr) slog.Handler      { return h }
func (h nopHandler) WithGroup(string) slog.Handler           { return h }

// ---------------------------------------------------------------- building and serving

func mkResolver(rc ResolverCfg) fox.ClientIPResolver {
	switch rc.Mode {
	case "ok":
		return fox.ClientIPResolverFunc(func(fox.Context) (*net.IPAddr, error) {
			return &net.IPAddr{IP: net.ParseIP(rc.IP), Zone: rc.Zone}, nil
		})
	case "fail":
		if rc.Chain {
			a, err1 := clientip.NewSingleIPHeader("X-C20-Absent-One")
			b, err2 := clientip.NewSingleIPHeader("X-C20-Absent-Two")
			if err1 == nil && err2 == nil {
				return clientip.NewChain(a, b)
			}
		}
		return fox.ClientIPResolverFunc(func(fox.Context) (*net.IPAddr, error) {
			if rc.WithIP {
				return &net.IPAddr{IP: net.ParseIP(rc.IP), Zone: rc.Zone}, errors.New(rc.Err)
			}
			return nil, errors.New(rc.Err)
		})
	}
	return nil
}

const priorHeader = "X-C20-Prior"

// priorAware makes a resolver succeed for the prior request, whatever it does for the judged one.
func priorAware(res fox.ClientIPResolver) fox.ClientIPResolver {
	if res == nil {
		return nil
	}
	return fox.ClientIPResolverFunc(func(c fox.Context) (*net.IPAddr, error) {
		if c.Request().Header.Get(priorHeader) != "" {
			return &net.IPAddr{IP: net.ParseIP("203.0.113.250")}, nil
		}
		return res.ClientIP(c)
	})
}

func (r *run) play(c fox.Context, script []Op) {
	for _, op := range script {
		switch op.Op {
		case "hdr":
			c.Writer().Header().Set(op.Key, op.Val)
		case "wh":
			c.Writer().WriteHeader(op.Code)
		case "write":
			switch op.Mode {
			case "string":
				_, _ = c.Writer().WriteString(string(op.Data))
			case "readfrom":
				_, _ = c.Writer().ReadFrom(struct{ io.Reader }{strings.NewReader(string(op.Data))})
			default:
				_, _ = c.Writer().Write([]byte(op.Data))
			}
		case "delegate":
			// the route declines the request after a look at it and lets the router's no-route handler answer
			c.Fox().HandleNoRoute(c)
		case "redirect":
			_ = c.Redirect(op.Code, op.Val)
		case "flush":
			if fl, ok := c.Writer().(http.Flusher); ok && op.Mode == "flush" {
				fl.Flush()
			} else {
				_ = c.Writer().FlushError()
			}
		case "panic":
			switch op.Mode {
			case "error":
				panic(r.errVal)
			case "abort":
				panic(http.ErrAbortHandler)
			default:
				panic(op.Val)
			}
		}
	}
}

func validCase(c *Case) bool {
	if _, ok := scopeOf[c.Kind]; !ok {
		return false
	}
	switch c.Install {
	case "global", "for-all", "for-kind", "for-others":
	case "route":
		if c.Kind != "route" {
			return false
		}
	default:
		return false
	}
	for _, rc := range []ResolverCfg{c.Global, c.Route} {
		if (rc.Mode == "ok" || rc.Mode == "fail" && rc.WithIP) && net.ParseIP(rc.IP) == nil {
			return false
		}
	}
	switch c.Global.Mode {
	case "none", "nil", "ok", "fail":
	default:
		return false
	}
	switch c.Route.Mode {
	case "inherit", "nil", "ok", "fail":
	default:
		return false
	}
	if c.Beh == "default" && c.Kind == "route" {
		return false
	}
	return c.Method != ""
}

// wraps reports whether the Logger is installed around the handler kind of the case.
func wraps(c *Case) bool { return c.Install != "for-others" }

// serve builds a fresh router for the case (with or without the Logger) and serves the request once.
func serve(c *Case, withLogger bool) (*run, error) {
	r := &run{errVal: errors.New("c20: error value passing through"), w: &under{h: http.Header{}, fail: c.FailWrites}}
	var raw http.ResponseWriter
	script := func(fc fox.Context) {
		if c.SwapWriter && raw != nil && fc.Request().Header.Get(priorHeader) == "" {
			fc.SetWriter(fox.NewTestContextOnly(raw, fc.Request()).Writer())
		}
		if fc.Request().Header.Get(priorHeader) != "" {
			fc.Writer().Header().Set("Location", "/c20-prior-location")
			fc.Writer().WriteHeader(http.StatusFound)
			return
		}
		if c.Mounted {
			inner, err := fox.New(fox.WithNoRouteHandler(func(ic fox.Context) { r.play(ic, c.Script) }))
			if err == nil {
				inner.ServeHTTP(fc.Writer(), fc.Request())
				return
			}
		}
		r.play(fc, c.Script)
	}
	probe := func(next fox.HandlerFunc) fox.HandlerFunc {
		return func(fc fox.Context) {
			r.hits++
			r.scope = fc.Scope()
			r.routeNil = fc.Route() == nil
			next(fc)
			r.seq++
			r.hEnd = r.seq
		}
	}
	outer := func(next fox.HandlerFunc) fox.HandlerFunc {
		return func(fc fox.Context) {
			defer func() {
				if v := recover(); v != nil {
					r.outCalls++
					r.outVal = v
					panic(v)
				}
			}()
			next(fc)
		}
	}
	var open *bool
	if c.LateDebug {
		open = new(bool)
	}
	logger := fox.LoggerWithHandler(capture{r, open})

	var opts []fox.GlobalOption
	if c.Recovery {
		// the order of DefaultOptions: Recovery (route scope) outside the Logger
		opts = append(opts, fox.WithMiddlewareFor(fox.RouteHandler, fox.CustomRecoveryWithLogHandler(nopHandler{}, func(fc fox.Context, v any) {
			r.recCalls++
			r.recVal = v
			http.Error(fc.Writer(), "recovered", http.StatusInternalServerError)
		})))
	}
	if c.Global.Mode != "none" {
		opts = append(opts, fox.WithClientIPResolver(priorAware(mkResolver(c.Global))))
	}
	var ropts []fox.RouteOption
	if c.Install == "route" {
		ropts = append(ropts, fox.WithMiddleware(outer))
		if withLogger {
			ropts = append(ropts, fox.WithMiddleware(logger))
		}
		ropts = append(ropts, fox.WithMiddleware(probe))
	} else {
		opts = append(opts, fox.WithMiddleware(outer))
		if withLogger {
			switch c.Install {
			case "global":
				opts = append(opts, fox.WithMiddleware(logger))
			case "for-all":
				opts = append(opts, fox.WithMiddlewareFor(fox.AllHandlers, logger))
			case "for-kind":
				opts = append(opts, fox.WithMiddlewareFor(scopeOf[c.Kind], logger))
			case "for-others":
				opts = append(opts, fox.WithMiddlewareFor(fox.AllHandlers&^scopeOf[c.Kind], logger))
			}
		}
		opts = append(opts, fox.WithMiddleware(probe))
	}
	custom := c.Beh != "default"
	switch c.Kind {
	case "noroute":
		if custom {
			opts = append(opts, fox.WithNoRouteHandler(script))
		}
	case "nomethod":
		if custom {
			opts = append(opts, fox.WithNoMethodHandler(script))
		} else {
			opts = append(opts, fox.WithNoMethod(true))
		}
	case "options":
		if custom {
			opts = append(opts, fox.WithOptionsHandler(script))
		} else {
			opts = append(opts, fox.WithAutoOptions(true))
		}
	case "redirect":
		opts = append(opts, fox.WithRedirectTrailingSlash(true))
		if custom {
			// the built-in redirect handler cannot be replaced: an innermost middleware answers in its place
			opts = append(opts, fox.WithMiddlewareFor(fox.RedirectHandler, func(fox.HandlerFunc) fox.HandlerFunc { return script }))
		}
	}
	f, err := fox.New(opts...)
	if err != nil {
		return nil, err
	}
	if c.Route.Mode != "inherit" {
		ropts = append(ropts, fox.WithClientIPResolver(priorAware(mkResolver(c.Route))))
	}
	if c.IgnoreTS && c.Kind == "route" {
		ropts = append(ropts, fox.WithIgnoreTrailingSlash(true))
	}
	regMethod := c.Method
	switch c.Kind {
	case "noroute", "options":
		regMethod = http.MethodGet
	case "nomethod":
		regMethod = http.MethodPost
		if c.Method == http.MethodPost {
			regMethod = http.MethodGet
		}
	}
	if _, err := f.Handle(regMethod, pattern, script, ropts...); err != nil {
		return nil, err
	}
	if open != nil {
		*open = true
	}
	// Dirty the context pool first: an unrelated route with its own resolver is served directly and through an ignored
	// trailing slash, so that the judged request runs on a recycled context that last belonged to another route.
	decoy := fox.ClientIPResolverFunc(func(fox.Context) (*net.IPAddr, error) { return &net.IPAddr{IP: net.ParseIP("198.51.100.99")}, nil })
	if _, err := f.Handle(http.MethodGet, "/zz-c20-decoy/{x}/", func(fc fox.Context) { fc.Writer().WriteHeader(http.StatusNoContent) },
		fox.WithClientIPResolver(decoy), fox.WithIgnoreTrailingSlash(true)); err == nil {
		for _, p := range []string{"/zz-c20-decoy/1/", "/zz-c20-decoy/1"} {
			func() {
				defer func() { _ = recover() }()
				f.ServeHTTP(httptest.NewRecorder(), httptest.NewRequest(http.MethodGet, "http://decoy.test"+p, nil))
			}()
		}
		fresh := &run{errVal: r.errVal, w: r.w}
		*r = *fresh
	}
	if c.Prior {
		func() {
			defer func() { _ = recover() }()
			preq := &http.Request{
				Method: c.Method, URL: &url.URL{Scheme: "http", Host: "placeholder", Path: c.Path, RawPath: c.RawPath, RawQuery: c.Query},
				Proto: "HTTP/1.1", ProtoMajor: 1, ProtoMinor: 1, Header: http.Header{priorHeader: {"1"}}, Host: c.Host,
				RemoteAddr: "198.51.100.77:4000", RequestURI: c.Path, Body: http.NoBody,
			}
			f.ServeHTTP(httptest.NewRecorder(), preq)
		}()
		fresh := &run{errVal: r.errVal, w: r.w}
		*r = *fresh
	}
	req := &http.Request{
		Method: c.Method, URL: &url.URL{Scheme: "http", Host: "placeholder", Path: c.Path, RawPath: c.RawPath, RawQuery: c.Query},
		Proto: "HTTP/1.1", ProtoMajor: 1, ProtoMinor: 1, Header: http.Header{}, Host: c.Host,
		RemoteAddr: c.RemoteAddr, RequestURI: c.Path, Body: http.NoBody,
	}
	w := mkWriter(r.w, c.ReaderFrom, c.Flusher)
	raw = w
	func() {
		defer func() {
			if v := recover(); v != nil {
				r.panicked = true
				r.panicVal = v
			}
		}()
		f.ServeHTTP(w, req)
	}()
	return r, nil
}

// ---------------------------------------------------------------- oracle

// remoteIP is the IP (with zone) of an "IP:port" remote address, or false when the address is not of that form.
func remoteIP(addr string) (string, bool) {
	ap, err := netip.ParseAddrPort(addr)
	if err != nil {
		return "", false
	}
	a := ap.Addr()
	if a.Is4In6() {
		if a.Zone() != "" {
			return "", false
		}
		a = a.Unmap()
	}
	return a.String(), true
}

// effective returns the resolver that applies to the request of the case.
func effective(c *Case) ResolverCfg {
	rc := c.Global
	if c.Kind == "route" && c.Route.Mode != "inherit" {
		rc = c.Route
	}
	if rc.Mode == "nil" {
		rc.Mode = "none"
	}
	return rc
}

func samePanic(script []Op, r *run, v any) bool {
	for _, op := range script {
		if op.Op != "panic" {
			continue
		}
		switch op.Mode {
		case "error":
			e, ok := v.(error)
			return ok && e == r.errVal
		case "abort":
			e, ok := v.(error)
			return ok && e == http.ErrAbortHandler
		default:
			s, ok := v.(string)
			return ok && s == op.Val
		}
	}
	return false
}

func hasPanic(c *Case) bool {
	if c.Beh == "default" {
		return false
	}
	for _, op := range c.Script {
		if op.Op == "panic" {
			return true
		}
	}
	return false
}

var boundary = map[int]bool{199: true, 200: true, 299: true, 300: true, 399: true, 400: true, 499: true, 500: true}

func levelName(l slog.Level) string { return l.String() }

func attrString(v slog.Value) string { return fmt.Sprint(v.Any()) }

func check(c *Case, count bool) error {
	if !validCase(c) {
		return nil
	}
	base, err := serve(c, false)
	if err != nil {
		return nil
	}
	desc := func() string { b, _ := json.Marshal(c); return string(b) + ": " }
	// the case must reach the intended handler kind exactly once without the Logger, otherwise it says nothing
	if base.hits != 1 || base.scope != scopeOf[c.Kind] {
		if count {
			stats.Excluded("request did not reach the intended handler kind")
		}
		return nil
	}
	wantPanic := hasPanic(c)
	if wantPanic != (base.outCalls == 1) || base.outCalls > 1 || wantPanic && !samePanic(c.Script, base, base.outVal) {
		// without the Logger the harness itself must see the scripted panic: anything else is not about C20
		if count {
			stats.Excluded("baseline run without the Logger did not show the scripted panic behaviour")
		}
		return nil
	}
	got, err := serve(c, true)
	if err != nil {
		return fmt.Errorf("%srouter accepted without the Logger but not with it: %v", desc(), err)
	}

	eff := effective(c)
	if count {
		stats.Class("kind:" + c.Kind)
		stats.Class("behaviour:" + c.Beh)
		stats.Class("install:" + c.Install)
		if c.LateDebug {
			stats.Class("slog-handler-accepts-debug-only-after-construction")
		}
		if c.Mounted && c.Beh != "default" {
			stats.Class("script-runs-in-a-second-router-entered-with-c.Writer()")
		}
		stats.Class("resolver-effective:" + eff.Mode)
		stats.Class("resolver-config:global=" + c.Global.Mode + ",route=" + c.Route.Mode)
		if c.Recovery {
			stats.Class("recovery-outside-logger")
		}
		if c.Route.Mode != "inherit" {
			if c.Kind == "route" {
				stats.Class("route-resolver:overrides-the-global-one")
			} else {
				stats.Class("route-resolver:set-but-not-applicable-to-this-kind")
			}
		}
		if _, ok := remoteIP(c.RemoteAddr); ok {
			stats.Class("remote-addr:ip-port")
		} else {
			stats.Class("remote-addr:junk")
		}
		if c.IgnoreTS {
			stats.Class("route-reached-by-ignoring-trailing-slash")
		}
		nt := eff.Mode == "fail" || c.Route.Mode != "inherit"
		for _, code := range base.w.codes {
			if boundary[code] {
				nt = true
				stats.Class("boundary-status:" + strconv.Itoa(code))
			}
		}
		if nt {
			b, _ := json.Marshal(c)
			stats.NonTrivial(string(b))
		}
	}

	// ---- the wrapped handler ran once, in the same scope
	if got.hits != 1 {
		return fmt.Errorf("%swith the Logger the wrapped handler was entered %d times (once without it)", desc(), got.hits)
	}
	if got.scope != base.scope || got.routeNil != base.routeNil {
		return fmt.Errorf("%shandler scope/route differ with the Logger: scope %d route-nil %v, without: scope %d route-nil %v", desc(), got.scope, got.routeNil, base.scope, base.routeNil)
	}

	// ---- a panic passes through unchanged
	if got.outCalls != base.outCalls {
		return fmt.Errorf("%sa panic came out of the wrapped handler %d times with the Logger (value %v), %d times without it (value %v)", desc(), got.outCalls, got.outVal, base.outCalls, base.outVal)
	}
	if got.outCalls > 0 && !samePanic(c.Script, got, got.outVal) {
		return fmt.Errorf("%sthe panic value changed while passing through the Logger: got %T %v", desc(), got.outVal, got.outVal)
	}
	if got.panicked != base.panicked || got.recCalls != base.recCalls {
		return fmt.Errorf("%spanic propagation differs: with the Logger ServeHTTP panicked=%v (value %v), outer Recovery calls=%d; without: panicked=%v (value %v), Recovery calls=%d",
			desc(), got.panicked, got.panicVal, got.recCalls, base.panicked, base.panicVal, base.recCalls)
	}
	if got.panicked && !samePanic(c.Script, got, got.panicVal) {
		return fmt.Errorf("%sthe panic value reaching the caller of ServeHTTP changed: got %T %v", desc(), got.panicVal, got.panicVal)
	}
	if got.recCalls > 0 && !samePanic(c.Script, got, got.recVal) {
		return fmt.Errorf("%sthe panic value seen by the Recovery middleware outside the Logger changed: got %T %v", desc(), got.recVal, got.recVal)
	}

	// ---- the response is not altered
	if got.w.final != base.w.final || !reflect.DeepEqual(got.w.info, base.w.info) || !reflect.DeepEqual(got.w.codes, base.w.codes) {
		return fmt.Errorf("%sstatus differs: with the Logger final=%d informational=%v WriteHeader calls=%v, without final=%d informational=%v calls=%v",
			desc(), got.w.final, got.w.info, got.w.codes, base.w.final, base.w.info, base.w.codes)
	}
	if !reflect.DeepEqual(got.w.headers(), base.w.headers()) || !reflect.DeepEqual(got.w.h, base.w.h) {
		return fmt.Errorf("%sresponse headers differ: with the Logger %v, without %v", desc(), got.w.headers(), base.w.headers())
	}
	if !bytes.Equal(got.w.body.Bytes(), base.w.body.Bytes()) {
		return fmt.Errorf("%sresponse body differs: with the Logger %q, without %q", desc(), got.w.body.String(), base.w.body.String())
	}

	// ---- number of records
	returned := got.hEnd != 0
	if returned == wantPanic {
		return fmt.Errorf("%sharness: handler returned=%v but scripted panic=%v", desc(), returned, wantPanic)
	}
	wantRecords := 0
	if returned && wraps(c) {
		wantRecords = 1
	}
	if len(got.records) != wantRecords {
		why := "the wrapped handler returned"
		if !wraps(c) {
			why = "the Logger is not installed for this handler kind"
		} else if !returned {
			why = "the wrapped handler panicked"
		}
		return fmt.Errorf("%s%d log records, want %d (%s)", desc(), len(got.records), wantRecords, why)
	}
	if count {
		switch {
		case !wraps(c):
			stats.Class("records:0-logger-not-wrapping-this-kind")
		case !returned:
			stats.Class("records:0-handler-panicked")
			for _, op := range c.Script {
				if op.Op == "panic" {
					stats.Class("panic:" + op.Mode)
				}
			}
		}
	}
	if wantRecords == 0 {
		return nil
	}
	rec := got.records[0]

	// ---- after the handler
	if rec.seq < got.hEnd {
		return fmt.Errorf("%sthe record was emitted before the wrapped handler returned (record at step %d, handler returned at step %d)", desc(), rec.seq, got.hEnd)
	}

	// ---- status, method, host, path
	status := got.w.status()
	judgeStatus := true
	if got.w.final == 0 && len(got.w.info) > 0 {
		// only informational statuses were sent; what "the status" of such an exchange is, is not stated
		judgeStatus = false
		if count {
			stats.Excluded("only 1xx statuses written: status and level not judged")
		}
	}
	for _, k := range []string{"status", "method", "host", "path"} {
		if _, ok := rec.attrs[k]; !ok {
			return fmt.Errorf("%srecord has no %q attribute (attributes %v)", desc(), k, rec.keys)
		}
	}
	if judgeStatus {
		if g := attrString(rec.attrs["status"]); g != strconv.Itoa(status) {
			return fmt.Errorf("%srecord status = %s, the response writer received final status %d (WriteHeader calls %v)", desc(), g, status, got.w.codes)
		}
	}
	if g := attrString(rec.attrs["method"]); g != c.Method {
		return fmt.Errorf("%srecord method = %q, request method %q", desc(), g, c.Method)
	}
	if g := attrString(rec.attrs["host"]); g != c.Host {
		return fmt.Errorf("%srecord host = %q, request host %q", desc(), g, c.Host)
	}
	if g := attrString(rec.attrs["path"]); g != c.Path {
		return fmt.Errorf("%srecord path = %q, request path %q", desc(), g, c.Path)
	}

	// ---- level and location
	if judgeStatus && status >= 200 && status <= 599 {
		var want slog.Level
		switch status / 100 {
		case 2:
			want = slog.LevelInfo
		case 3:
			want = slog.LevelDebug
		case 4:
			want = slog.LevelWarn
		default:
			want = slog.LevelError
		}
		if rec.level != want {
			return fmt.Errorf("%sstatus %d logged at level %s, want %s", desc(), status, levelName(rec.level), levelName(want))
		}
		if count {
			stats.Class("level:" + levelName(want))
		}
		if status/100 == 3 {
			loc := got.w.headers().Get("Location")
			v, has := rec.attrs["location"]
			switch {
			case loc != "" && !has:
				return fmt.Errorf("%sstatus %d with Location %q: record has no location attribute (attributes %v)", desc(), status, loc, rec.keys)
			case loc != "" && attrString(v) != loc:
				return fmt.Errorf("%sstatus %d with Location %q: record location = %q", desc(), status, loc, attrString(v))
			case loc == "" && has:
				return fmt.Errorf("%sstatus %d without Location header: record carries location = %q", desc(), status, attrString(v))
			}
			if count {
				if loc != "" {
					stats.Class("3xx:with-location")
				} else {
					stats.Class("3xx:without-location")
				}
			}
		}
	} else if judgeStatus {
		if count {
			stats.Excluded("final status outside 200..599: level not judged")
		}
	}
	if judgeStatus && status/100 != 3 {
		// whether a non-3xx record may mention the response's own Location header is not stated; a location the response does
		// not have is not "the response status actually recorded ... together with the Location header" of anything
		if v, has := rec.attrs["location"]; has && attrString(v) != got.w.headers().Get("Location") {
			return fmt.Errorf("%sstatus %d, response Location header %q: the record carries location = %q, which this response does not have", desc(), status, got.w.headers().Get("Location"), attrString(v))
		}
	}

	// ---- message
	switch eff.Mode {
	case "ok":
		want := (&net.IPAddr{IP: net.ParseIP(eff.IP), Zone: eff.Zone}).String()
		if rec.msg != want {
			return fmt.Errorf("%smessage = %q, the applicable resolver returned %q", desc(), rec.msg, want)
		}
	case "fail":
		if rec.msg != "unknown" {
			return fmt.Errorf("%smessage = %q, the applicable resolver failed: want \"unknown\"", desc(), rec.msg)
		}
	default:
		want, ok := remoteIP(c.RemoteAddr)
		if !ok {
			if count {
				stats.Excluded("no resolver and RemoteAddr is not IP:port: message not judged")
			}
			break
		}
		if rec.msg != want {
			return fmt.Errorf("%smessage = %q, no resolver applies and the remote address is %q: want %q", desc(), rec.msg, c.RemoteAddr, want)
		}
	}
	return nil
}

// ---------------------------------------------------------------- generator

var (
	ipPool = []ResolverCfg{
		{IP: "203.0.113.7"}, {IP: "10.0.0.1"}, {IP: "2001:db8::2"}, {IP: "fe80::1", Zone: "eth0"},
		{IP: "::ffff:192.0.2.9"}, {IP: "::"}, {IP: "255.255.255.255"}, {IP: "2001:db8:0:0:1:0:0:1", Zone: "7"},
	}
	errPool     = []string{"no valid IP in X-Forwarded-For", "header absent", ""}
	remotePool  = []string{"192.0.2.1:1234", "[2001:db8::1%eth0]:80", "[::1]:9", "198.51.100.200:65535", "[::ffff:192.0.2.33]:443", "0.0.0.0:0"}
	junkRemotes = []string{"nonsense", "", "192.0.2.1", "[::1]", "host.example:80", "999.1.1.1:80", "@"}
	methodPool  = []string{"GET", "GET", "POST", "PUT", "DELETE", "PATCH", "HEAD", "FOO"}
	hostPool    = []string{"example.com", "example.com:8080", "", "[::1]:8080", "sub.example.org.", "LOCALHOST", "10.1.2.3"}
	segPool     = []string{"x", "42", "a.b", "A-b_c~", "é", "unknown", "r"}
	queryPool   = []string{"", "", "", "a=1&b=2", "next=%2Fr%2Fx"}
	bodyPool    = []string{"ok", "", "hello, world\n", "\x00\xff binary"}
	locPool     = []string{"/new", "https://example.org/x?y=1", "rel/path", "../up", "//other.example/", "/r/é"}
	edgeStatus  = []int{200, 299, 300, 399, 400, 499, 500, 599}
	commonCodes = []int{201, 204, 206, 301, 302, 304, 307, 401, 404, 418, 429, 501, 503}
	infoCodes   = []int{100, 102, 103, 199}
	redirCodes  = []int{300, 301, 302, 303, 304, 305, 307, 308, 399}
)

func genStatus(t *rapid.T) int {
	switch gen.U(t, 4, "statusSrc") {
	case 0, 1:
		return gen.Pick(t, edgeStatus, "edge")
	case 2:
		return gen.Pick(t, commonCodes, "common")
	}
	return gen.IntR(t, 200, 599, "status")
}

func genWrite(t *rapid.T) Op {
	return Op{Op: "write", Data: stats.B(gen.Pick(t, bodyPool, "body")), Mode: gen.Pick(t, []string{"bytes", "string", "readfrom"}, "writeMode")}
}

func genResolver(t *rapid.T, modes []string, ipIdx int, label string) ResolverCfg {
	rc := ResolverCfg{Mode: gen.Pick(t, modes, label)}
	switch rc.Mode {
	case "ok":
		rc.IP, rc.Zone = ipPool[ipIdx].IP, ipPool[ipIdx].Zone
	case "fail":
		rc.Err = gen.Pick(t, errPool, label+"Err")
		if gen.Chance(t, 1, 4, label+"Chain") {
			rc.Chain = true
		} else if gen.Chance(t, 1, 3, label+"WithIP") {
			rc.WithIP = true
			rc.IP, rc.Zone = ipPool[ipIdx].IP, ipPool[ipIdx].Zone
		}
	}
	return rc
}

var behaviours = []string{
	"status", "status", "status", "status", "info-then-status", "body-only", "nothing", "info-only", "switching-protocols",
	"redirect-with-location", "redirect-with-location", "redirect-without-location", "location-on-non-3xx",
	"header-after-body", "two-statuses", "panic", "panic",
	"flush-then-status", "flush-then-status", "status-then-flush", "flush-only", "delegate-noroute", "delegate-noroute",
}

func genScript(t *rapid.T, beh string) []Op {
	var s []Op
	switch beh {
	case "status":
		if gen.Chance(t, 1, 3, "xhdr") {
			s = append(s, Op{Op: "hdr", Key: "X-Test", Val: "1"})
		}
		s = append(s, Op{Op: "wh", Code: genStatus(t)})
		if rapid.Bool().Draw(t, "withBody") {
			s = append(s, genWrite(t))
		}
	case "info-then-status":
		for i, n := 0, gen.IntR(t, 1, 2, "ninfo"); i < n; i++ {
			s = append(s, Op{Op: "wh", Code: gen.Pick(t, infoCodes, "info")})
		}
		if gen.Chance(t, 3, 4, "explicitFinal") {
			s = append(s, Op{Op: "wh", Code: genStatus(t)})
		} else {
			s = append(s, genWrite(t))
		}
	case "body-only":
		s = append(s, genWrite(t))
		if gen.Chance(t, 1, 4, "second") {
			s = append(s, genWrite(t))
		}
	case "nothing":
		if gen.Chance(t, 1, 3, "onlyHeader") {
			s = append(s, Op{Op: "hdr", Key: "X-Test", Val: "1"})
		}
	case "delegate-noroute":
		if gen.Chance(t, 1, 3, "xhdr") {
			s = append(s, Op{Op: "hdr", Key: "X-Test", Val: "1"})
		}
		s = append(s, Op{Op: "delegate"})
	case "info-only":
		s = append(s, Op{Op: "wh", Code: gen.Pick(t, infoCodes, "info")})
	case "switching-protocols":
		s = append(s, Op{Op: "wh", Code: http.StatusSwitchingProtocols})
	case "redirect-with-location":
		loc := gen.Pick(t, locPool, "loc")
		if gen.Chance(t, 1, 3, "helper") {
			s = append(s, Op{Op: "redirect", Code: gen.IntR(t, 300, 308, "rcode"), Val: loc})
		} else {
			if gen.Chance(t, 1, 8, "emptyLoc") {
				loc = ""
			}
			code := gen.Pick(t, redirCodes, "rcode")
			if gen.Chance(t, 1, 4, "any3xx") {
				code = gen.IntR(t, 300, 399, "rcode")
			}
			s = append(s, Op{Op: "hdr", Key: "Location", Val: loc}, Op{Op: "wh", Code: code})
		}
	case "redirect-without-location":
		code := gen.Pick(t, redirCodes, "rcode")
		if gen.Chance(t, 1, 4, "any3xx") {
			code = gen.IntR(t, 300, 399, "rcode")
		}
		s = append(s, Op{Op: "wh", Code: code})
	case "location-on-non-3xx":
		s = append(s, Op{Op: "hdr", Key: "Location", Val: gen.Pick(t, locPool, "loc")},
			Op{Op: "wh", Code: gen.Pick(t, []int{200, 201, 202, 299, 400, 404, 499, 500, 503}, "code")})
	case "header-after-body":
		s = append(s, genWrite(t), Op{Op: "wh", Code: genStatus(t)})
	case "flush-then-status": // a stream opened first, then a status (http.Error after an upstream failure, say)
		s = append(s, Op{Op: "flush", Mode: gen.Pick(t, []string{"flush", "flusherror"}, "flushMode")}, Op{Op: "wh", Code: genStatus(t)})
		if rapid.Bool().Draw(t, "withBody") {
			s = append(s, genWrite(t))
		}
	case "status-then-flush":
		s = append(s, Op{Op: "wh", Code: genStatus(t)}, Op{Op: "flush", Mode: gen.Pick(t, []string{"flush", "flusherror"}, "flushMode")})
		if rapid.Bool().Draw(t, "withBody") {
			s = append(s, genWrite(t))
		}
	case "flush-only":
		s = append(s, Op{Op: "flush", Mode: gen.Pick(t, []string{"flush", "flusherror"}, "flushMode")})
		if gen.Chance(t, 1, 3, "thenBody") {
			s = append(s, genWrite(t))
		}
	case "two-statuses":
		s = append(s, Op{Op: "wh", Code: genStatus(t)}, Op{Op: "wh", Code: genStatus(t)})
	case "panic":
		switch gen.U(t, 3, "before") {
		case 1:
			s = append(s, Op{Op: "wh", Code: genStatus(t)})
		case 2:
			s = append(s, Op{Op: "wh", Code: genStatus(t)}, genWrite(t))
		}
		s = append(s, Op{Op: "panic", Mode: gen.Pick(t, []string{"string", "error", "abort"}, "panicKind"), Val: "boom"})
	}
	return s
}

func genCase(t *rapid.T) *Case {
	c := &Case{}
	c.Kind = gen.Pick(t, []string{"route", "route", "noroute", "nomethod", "redirect", "options"}, "kind")
	installs := []string{"global", "global", "global", "for-all", "for-all", "for-kind", "for-kind", "for-others"}
	if c.Kind == "route" {
		installs = append(installs, "route", "route")
	}
	c.Install = gen.Pick(t, installs, "install")
	c.Recovery = gen.Chance(t, 1, 4, "recovery")
	c.ReaderFrom = rapid.Bool().Draw(t, "readerFrom")
	c.Flusher = gen.Pick(t, []string{"", "flush", "flusherror", "both"}, "flusher")
	c.Prior = gen.Chance(t, 1, 2, "prior")
	c.SwapWriter = gen.Chance(t, 1, 5, "swapwriter")
	c.LateDebug = gen.Chance(t, 1, 4, "latedebug")
	c.Mounted = gen.Chance(t, 1, 5, "mounted")
	c.FailWrites = gen.Chance(t, 1, 6, "failwrites")
	gi := gen.U(t, len(ipPool), "globalIP")
	ri := (gi + 1 + gen.U(t, len(ipPool)-1, "routeIP")) % len(ipPool)
	c.Global = genResolver(t, []string{"none", "none", "nil", "ok", "ok", "ok", "fail", "fail"}, gi, "globalResolver")
	c.Route = genResolver(t, []string{"inherit", "inherit", "inherit", "nil", "ok", "fail"}, ri, "routeResolver")
	c.Method = gen.Pick(t, methodPool, "method")
	if c.Kind == "options" {
		c.Method = http.MethodOptions
	}
	c.Host = gen.Pick(t, hostPool, "host")
	seg := gen.Pick(t, segPool, "seg")
	switch c.Kind {
	case "noroute":
		c.Path = gen.Pick(t, []string{"/zzz/" + seg, "/", "/r", "/r/" + seg + "/more"}, "nopath")
	case "redirect":
		c.Path = "/r/" + seg + "/"
	case "route":
		c.Path = "/r/" + seg
		if gen.Chance(t, 1, 5, "ignoreTS") {
			c.IgnoreTS = true
			c.Path += "/"
		}
	default:
		c.Path = "/r/" + seg
	}
	if gen.Chance(t, 1, 6, "rawpath") && c.Kind != "redirect" {
		// an escaped slash inside the last segment: the server keeps the escaped form in URL.RawPath and routes on it, the
		// request path stays the decoded one
		base := strings.TrimSuffix(c.Path, "/")
		slash := c.Path[len(base):]
		c.RawPath = base + "%2Fz" + slash
		c.Path = base + "/z" + slash
	}
	c.Query = gen.Pick(t, queryPool, "query")
	if gen.Chance(t, 1, 5, "junkRemote") {
		c.RemoteAddr = gen.Pick(t, junkRemotes, "remote")
	} else {
		c.RemoteAddr = gen.Pick(t, remotePool, "remote")
	}
	def := 0
	switch c.Kind {
	case "redirect":
		def = 3
	case "noroute", "nomethod", "options":
		def = 1
	}
	if gen.U(t, 5, "default") < def {
		c.Beh = "default"
	} else {
		c.Beh = gen.Pick(t, behaviours, "behaviour")
		if c.Beh == "delegate-noroute" && c.Kind != "route" {
			c.Beh = "status" // only a route handler hands over to the no-route handler
		}
		if c.Beh == "delegate-noroute" {
			c.Mounted = false // the mounted router's no-route handler IS the script
		}
		c.Script = genScript(t, c.Beh)
	}
	return c
}

func TestRandom(t *testing.T) {
	rapid.Check(t, func(t *rapid.T) {
		c := genCase(t)
		defer stats.Guard("logger", func() any { return c })()
		stats.Eval()
		stats.Sample(c)
		if err := check(c, true); err != nil {
			stats.Fail("logger", c, "%v", err)
			t.Fatalf("%v", err)
		}
	})
}

// TestSweep: every status 200..599 x handler kind x applicable resolver outcome, with and without a Location header.
func TestSweep(t *testing.T) {
	kinds := []string{"route", "noroute", "nomethod", "redirect", "options"}
	n := 0
	for status := 200; status <= 599; status++ {
		for ki, kind := range kinds {
			for ri, mode := range []string{"none", "ok", "fail"} {
				c := &Case{Kind: kind, Install: "global", Method: "GET", Host: "example.com", Path: "/r/x", RemoteAddr: remotePool[(status+ki)%len(remotePool)],
					Global: ResolverCfg{Mode: "none"}, Route: ResolverCfg{Mode: "inherit"}, Beh: "status"}
				rc := ResolverCfg{Mode: mode}
				if mode != "none" {
					rc.IP, rc.Zone, rc.Err = ipPool[(status+ri)%len(ipPool)].IP, ipPool[(status+ri)%len(ipPool)].Zone, "sweep"
				}
				switch kind {
				case "route":
					// the route's own resolver decides; the router-wide one says the opposite
					c.Route = rc
					c.Global = ResolverCfg{Mode: "ok", IP: "192.0.2.254"}
					if mode == "ok" {
						c.Global = ResolverCfg{Mode: "fail", Err: "global"}
					}
					if mode == "none" {
						c.Route.Mode = "nil"
					}
				default:
					// the router-wide resolver decides; the registered route's own one says the opposite
					c.Global = rc
					c.Route = ResolverCfg{Mode: "ok", IP: "192.0.2.254"}
					if mode == "ok" {
						c.Route = ResolverCfg{Mode: "fail", Err: "route"}
					}
				}
				switch kind {
				case "options":
					c.Method = http.MethodOptions
				case "redirect":
					c.Path = "/r/x/"
				case "noroute":
					c.Path = "/zzz"
				}
				if (status+ri)%2 == 0 {
					c.Script = append(c.Script, Op{Op: "hdr", Key: "Location", Val: "/elsewhere"})
				}
				c.Script = append(c.Script, Op{Op: "wh", Code: status})
				c.Flusher = []string{"", "flush", "flusherror", "both"}[(status+ki+ri)%4]
				c.Prior = (status+ri)%3 == 0
				if (status+ki)%5 == 0 {
					c.Script = append(c.Script, Op{Op: "flush", Mode: []string{"flush", "flusherror"}[ri%2]})
				}
				stats.Eval()
				if n++; n%700 == 1 {
					stats.Sample(c)
				}
				if err := check(c, true); err != nil {
					stats.Fail("logger", c, "%v", err)
					t.Fatalf("%v", err)
				}
			}
		}
	}
	stats.Note("sweep", "every status 200..599 x 5 handler kinds x applicable resolver {none, succeeds, fails} (the non-applicable resolver configured to say the opposite), Location header on alternating cases")
}

// TestKinds is a harness self-test (no verdict on fox): the fixed request shapes must reach the handler kind they are meant for,
// otherwise the checks above would silently exclude everything.
func TestKinds(t *testing.T) {
	keys := make([]string, 0, len(scopeOf))
	for k := range scopeOf {
		keys = append(keys, k)
	}
	sort.Strings(keys)
	for _, kind := range keys {
		sc := scopeOf[kind]
		for _, beh := range []string{"status", "default"} {
			if kind == "route" && beh == "default" {
				continue
			}
			c := &Case{Kind: kind, Install: "global", Method: "PUT", Host: "h", Path: "/r/x", RemoteAddr: "192.0.2.1:1", Global: ResolverCfg{Mode: "none"},
				Route: ResolverCfg{Mode: "inherit"}, Beh: beh, Script: []Op{{Op: "wh", Code: 202}}}
			switch kind {
			case "options":
				c.Method = "OPTIONS"
			case "redirect":
				c.Path = "/r/x/"
			case "noroute":
				c.Path = "/zzz/x"
			}
			if !validCase(c) {
				t.Fatalf("self-test case for %s is not valid", kind)
			}
			r, err := serve(c, true)
			if err != nil {
				t.Fatalf("%s: %v", kind, err)
			}
			if r.hits != 1 || r.scope != sc {
				t.Fatalf("%s/%s: probe hits=%d scope=%d, want 1 and %d", kind, beh, r.hits, r.scope, sc)
			}
			if len(r.records) != 1 {
				t.Fatalf("%s/%s: %d records", kind, beh, len(r.records))
			}
		}
	}
	for _, a := range remotePool {
		if _, ok := remoteIP(a); !ok {
			t.Fatalf("remote address %q of the well-formed pool is not parsed by the oracle", a)
		}
	}
	for _, a := range junkRemotes {
		if _, ok := remoteIP(a); ok {
			t.Fatalf("remote address %q of the junk pool is parsed by the oracle", a)
		}
	}
	stats.Note("handler_kinds", keys)
}

// ---------------------------------------------------------------- the built-in handler's own output

// DLCase: a sequence of requests served by a router whose Logger is fox.Logger(), i.e. the built-in pretty handler writing
// to the process's stdout (and stderr for ERROR). Each request has a path of its own: a marker followed by Pad bytes.
type DLReq struct {
	Pad    int `json:"pad"`
	Status int `json:"status"`
}

type DLCase struct {
	Reqs []DLReq `json:"reqs"`
}

func (c *DLCase) path(i int) string {
	return fmt.Sprintf("/dl/r%dq%s", i, strings.Repeat("p", c.Reqs[i].Pad))
}

func defaultLoggerChild(raw string) {
	var c DLCase
	if err := json.Unmarshal([]byte(raw), &c); err != nil {
		fmt.Println("C20-CHILD-ERROR", err)
		return
	}
	f, err := fox.New(fox.WithMiddleware(fox.Logger()))
	if err != nil {
		fmt.Println("C20-CHILD-ERROR", err)
		return
	}
	f.MustHandle("GET", "/dl/{p}", func(fc fox.Context) {
		code, _ := strconv.Atoi(fc.Request().Header.Get("X-Code"))
		fc.Writer().WriteHeader(code)
	})
	for i, q := range c.Reqs {
		req := httptest.NewRequest("GET", "http://dl.test"+c.path(i), nil)
		req.Header.Set("X-Code", strconv.Itoa(q.Status))
		f.ServeHTTP(httptest.NewRecorder(), req)
	}
}

var ansiRe = regexp.MustCompile("\x1b\\[[0-9;]*m")

// checkDefaultLogger runs the sequence in a child process and reads what the built-in handler printed: one "[FOX]" line per
// request, about that request (its path, its status, the level that goes with the status), and nothing else.
func checkDefaultLogger(c *DLCase) error {
	raw, _ := json.Marshal(c)
	cmd := exec.Command(os.Args[0], "-test.run=^$")
	cmd.Env = append(os.Environ(), "C20_DL_CASE="+string(raw))
	out, err := cmd.CombinedOutput()
	if err != nil {
		return fmt.Errorf("default logger: child process failed: %v: %.300s", err, out)
	}
	text := ansiRe.ReplaceAllString(string(out), "")
	if strings.Contains(text, "C20-CHILD-ERROR") {
		return fmt.Errorf("default logger: %.300s", text)
	}
	if n := strings.Count(text, "[FOX]"); n != len(c.Reqs) {
		return fmt.Errorf("default logger: %d requests served, the output holds %d record prefixes \"[FOX]\" (%d bytes)", len(c.Reqs), n, len(text))
	}
	lines := strings.Split(strings.TrimRight(text, "\n"), "\n")
	seen := map[int]bool{}
	for _, ln := range lines {
		if !strings.HasPrefix(ln, "[FOX]") {
			return fmt.Errorf("default logger: output line does not start a record: %.120q", ln)
		}
		i := -1
		if k := strings.Index(ln, "path=/dl/r"); k >= 0 {
			fmt.Sscanf(ln[k+len("path=/dl/r"):], "%d", &i)
		}
		if i < 0 || i >= len(c.Reqs) || seen[i] {
			return fmt.Errorf("default logger: a record names no request of the sequence, or one twice: %.160q", ln)
		}
		seen[i] = true
		q := c.Reqs[i]
		lvl := map[int]string{2: "INFO", 3: "DEBUG", 4: "WARN", 5: "ERROR"}[q.Status/100]
		if !strings.Contains(ln, "path="+c.path(i)+" ") || !strings.Contains(ln, fmt.Sprintf("status= %d ", q.Status)) || !strings.Contains(ln, "| "+lvl) || strings.Count(ln, "path=") != 1 {
			return fmt.Errorf("default logger: the record of request %d (status %d, %d-byte path) reads %.200q ... (%d bytes)", i, q.Status, len(c.path(i)), ln, len(ln))
		}
	}
	return nil
}

func TestDefaultLogger(t *testing.T) {
	rapid.Check(t, func(t *rapid.T) {
		c := &DLCase{}
		big := false
		for i, n := 0, gen.IntR(t, 3, 30, "nreq"); i < n; i++ {
			q := DLReq{Pad: gen.Pick(t, []int{0, 0, 3, 900, 17000, 40000}, "pad"), Status: gen.Pick(t, []int{200, 204, 301, 404, 500}, "status")}
			big = big || q.Pad > 16000
			c.Reqs = append(c.Reqs, q)
		}
		stats.EvalN(len(c.Reqs))
		stats.Sample(c)
		stats.Class("default-handler-output-read-from-a-child-process")
		if big {
			stats.NonTrivial(fmt.Sprintf("dl|%+v", c.Reqs))
		}
		if err := checkDefaultLogger(c); err != nil {
			stats.Fail("default-logger", c, "%v", err)
			t.Fatalf("%v", err)
		}
	})
}
