// C07 — routing depends only on the registered set, not on its history.
package c07

import (
	"encoding/json"
	"fmt"
	"net/http/httptest"
	"os"
	"reflect"
	"sort"
	"strings"
	"testing"

	"github.com/tigerwill90/fox"
	"pgregory.net/rapid"

	"verif/gen"
	"verif/hist"
	"verif/ref"
	"verif/rt"
	"verif/stats"
)

func TestMain(m *testing.M) {
	stats.Init("C07")
	stats.RegisterReplay("two-histories", func(raw json.RawMessage) error {
		var c Case
		if err := json.Unmarshal(raw, &c); err != nil {
			return err
		}
		return checkCase(&c, false)
	})
	stats.RegisterReplay("permutations", func(raw json.RawMessage) error {
		var c PermCase
		if err := json.Unmarshal(raw, &c); err != nil {
			return err
		}
		return checkPerms(&c)
	})
	os.Exit(stats.Finish(m.Run()))
}

func TestReplay(t *testing.T) { stats.RunReplays(t) }

// Case: a mutation history on router A; router B is filled with the surviving set in Order.
type Case struct {
	G      rt.Global `json:"global"`
	Ops    []hist.Op `json:"ops"`
	Order  []int     `json:"order"` // permutation ranks applied to the sorted surviving keys
	Probes []rt.Req  `json:"probes"`
}

type outcome struct {
	Lookup   string
	Code     int
	Kind     string
	Pattern  string
	Params   []ref.Param
	Location string
	Allow    string
}

func stripSeq(p string) string {
	if i := strings.LastIndexByte(p, '#'); i >= 0 {
		return p[:i]
	}
	return p
}

func sortedAllow(h string) string {
	if h == "" {
		return ""
	}
	parts := strings.Split(h, ",")
	for i := range parts {
		parts[i] = strings.TrimSpace(parts[i])
	}
	sort.Strings(parts)
	return strings.Join(parts, ",")
}

func observe(f *fox.Router, sink *rt.Sink, q rt.Req) outcome {
	lo := rt.DoLookup(f, q)
	r := &rt.Router{F: f, Sink: sink}
	sv := r.ServeReq(q)
	o := outcome{Lookup: lo.String(), Code: sv.Code, Location: sv.Header.Get("Location"), Allow: sortedAllow(sv.Header.Get("Allow"))}
	if len(sv.Hits) == 1 {
		o.Kind, o.Pattern, o.Params = sv.Hits[0].Kind, stripSeq(sv.Hits[0].Pattern), sv.Hits[0].Params
	} else {
		o.Kind = fmt.Sprintf("%d handlers", len(sv.Hits))
	}
	return o
}

func keyLess(a, b hist.Key) bool {
	if a.M != b.M {
		return a.M < b.M
	}
	return a.P < b.P
}

func checkCase(c *Case, count bool) error {
	// router A: the history
	sinkA := &rt.Sink{}
	e, err := hist.New(hist.Cfg{Methods: methods}, rt.GlobalOptions(c.G, sinkA)...)
	if err != nil {
		return nil
	}
	defer e.Close()
	for _, op := range c.Ops {
		if err := e.Apply(op); err != nil {
			return fmt.Errorf("history step %v: %w", op, err)
		}
	}
	if e.Txn != nil {
		e.Txn.Abort()
		e.Txn, e.TxnM = nil, nil
	}
	keys := e.Model.Keys()
	// router B: fresh, surviving set in the given order
	sinkB := &rt.Sink{}
	fb, err := fox.New(rt.GlobalOptions(c.G, sinkB)...)
	if err != nil {
		return nil
	}
	order := permute(keys, c.Order)
	for _, k := range order {
		if _, err := fb.Handle(k.M, k.P, sinkB.Handler(k.P), rt.RouteOptions(e.Model[k].TS)...); err != nil {
			return fmt.Errorf("surviving set %v: a fresh router refuses %s %q: %v", keys, k.M, k.P, err)
		}
	}
	for _, q := range c.Probes {
		// handler identity on A is the pattern; the engine's handlers record "pattern#seq"
		a := observeA(e, sinkA, q)
		b := observe(fb, sinkB, q)
		if !reflect.DeepEqual(a, b) {
			return fmt.Errorf("options %+v, registered set %v (history of %d operations on router A, inserted in order %v into fresh router B), request %s host=%q path=%q:\n  A: %+v\n  B: %+v", c.G, keys, len(c.Ops), order, q.Method, q.Host, q.Path, a, b)
		}
	}
	if count {
		stats.ClassN("probes", len(c.Probes))
	}
	return nil
}

func observeA(e *hist.Engine, sink *rt.Sink, q rt.Req) outcome {
	e.Sink.Hits = e.Sink.Hits[:0]
	sink.Hits = sink.Hits[:0]
	lo := rt.DoLookup(e.F, q)
	w := httptest.NewRecorder()
	e.F.ServeHTTP(w, rt.NewRequest(q))
	o := outcome{Lookup: lo.String(), Code: w.Code, Location: w.Header().Get("Location"), Allow: sortedAllow(w.Header().Get("Allow"))}
	hits := append(append([]rt.Hit(nil), e.Sink.Hits...), sink.Hits...)
	if len(hits) == 1 {
		o.Kind, o.Pattern, o.Params = hits[0].Kind, stripSeq(hits[0].Pattern), hits[0].Params
	} else {
		o.Kind = fmt.Sprintf("%d handlers", len(hits))
	}
	return o
}

func permute(keys []hist.Key, ranks []int) []hist.Key {
	out := append([]hist.Key(nil), keys...)
	for i := range out {
		if i < len(ranks) {
			j := i + ranks[i]%(len(out)-i)
			out[i], out[j] = out[j], out[i]
		}
	}
	return out
}

var methods = []string{"GET", "POST", "FOO", "BAR"}

func genCase(t *rapid.T) *Case {
	c := &Case{}
	c.G.TS = gen.Pick(t, []int{rt.TSNone, rt.TSIgnore, rt.TSRedirect}, "globalTS")
	c.G.NoMethod = gen.Chance(t, 1, 2, "noMethod")
	c.G.AutoOptions = gen.Chance(t, 1, 3, "autoOptions")
	return c
}

func TestTwoHistories(t *testing.T) {
	rapid.Check(t, func(t *rapid.T) {
		c := genCase(t)
		defer stats.Guard("two-histories", func() any { return c })()
		// draw the history with a scratch engine so that operations aim at existing keys
		scratch, err := hist.New(hist.Cfg{Methods: methods})
		if err != nil {
			t.Fatal(err)
		}
		g := hist.GenCfg{Txn: true, Managed: true, MaxBody: 3}
		// half of the histories start with a "wildcard family": a leaf with a single child edge below which a named
		// parameter and a catch-all compete (plus optional deeper routes); deleting the leaf later merges nodes that
		// carry both wildcard indexes
		var pre []hist.Op
		if gen.Chance(t, 1, 2, "family") {
			base := "/" + gen.Pick(t, gen.Statics, "fam")
			if gen.Chance(t, 1, 3, "deep") {
				base += "/" + gen.Pick(t, gen.Statics, "fam2")
			}
			m := gen.Pick(t, methods, "fmethod")
			fam := []string{base, base + "/{pf}", base + "/*{cf}"}
			if gen.Chance(t, 1, 2, "more") {
				fam = append(fam, base+"/{pf}/x", base+"/*{cf}/y")
			}
			for _, p := range fam {
				pre = append(pre, hist.Op{Kind: "handle", Method: m, Pattern: p})
			}
			if gen.Chance(t, 2, 3, "dropbase") {
				pre = append(pre, hist.Op{Kind: "delete", Method: m, Pattern: base})
			}
		}
		// a quarter start with a "hostname family": a label prefix shared by two branches, one of which ends at a label boundary
		// below which a static label and a parameter label compete; deleting the other branch merges hostname nodes
		if len(pre) == 0 && gen.Chance(t, 1, 2, "hostfamily") {
			l := func(tag string) string { return gen.Pick(t, gen.HostLabels, tag) }
			a, b, c2, d := l("ha"), l("hb"), l("hc"), l("hd")
			m := gen.Pick(t, methods, "hmethod")
			tail := gen.Pick(t, []string{"/", "/x", "/{p}"}, "htail")
			fam := []string{a + "." + b + ".{hf}" + tail, a + "." + b + "." + d + tail, a + "." + c2 + tail}
			if gen.Chance(t, 1, 2, "hmore") {
				fam = append(fam, a+"."+b+tail, "{hg}."+a+tail)
			}
			victim := gen.Pick(t, fam, "hvictim")
			if gen.Chance(t, 1, 3, "hpaths") {
				// a hostname with two paths that share a first byte (an intermediate path node below the host) and one longer
				// hostname; deleting the longer one leaves the host node with that intermediate path node as its only child
				h := a + "." + b
				fam = []string{h + "/ua", h + "/ub", h + "." + gen.Pick(t, []string{d, "{hf}"}, "hext") + tail}
				victim = fam[2]
			}
			for _, p := range fam {
				pre = append(pre, hist.Op{Kind: "handle", Method: m, Pattern: p})
			}
			if gen.Chance(t, 3, 4, "hdrop") {
				pre = append(pre, hist.Op{Kind: "delete", Method: m, Pattern: victim})
			}
		}
		// one history in twelve (of those without another family) first grows a node beyond 50 children - where the edge
		// search switches from a scan to a bisection - and only then hangs a parameter and a catch-all below it and writes
		// through those two edges; the other router registers the same set in its own order
		var wide []string
		if len(pre) == 0 && gen.Chance(t, 1, 6, "widefamily") {
			m := gen.Pick(t, methods, "wmethod")
			body := hist.Op{Kind: "updates", End: "ok"}
			for _, ch := range "0123456789ABCDEFGHIJKLMNOPQRSTUVWXYZabcdefghijklmnopq"[:gen.IntR(t, 51, 53, "wn")] {
				body.Body = append(body.Body, hist.Op{Kind: "handle", Method: m, Pattern: "/w/" + string(ch)})
			}
			wide = []string{"/w/{pw}", "/w/*{cw}", "/w/{pw}/x", "/w/*{cw}/y"}
			pre = append(pre, body)
			for _, p := range wide {
				pre = append(pre, hist.Op{Kind: "handle", Method: m, Pattern: p})
			}
		}
		// one history in eight (of those without another family) gives two or three uncommon verbs a route or two each, in a
		// drawn order, and then empties the verb that came first (or a drawn one): its root leaves the per-method list while
		// later ones stay; the other router never sees the emptied verb
		var verbSrc []hist.Key
		if len(pre) == 0 && gen.Chance(t, 1, 7, "verbfamily") {
			vs := permute([]hist.Key{{M: "FOO"}, {M: "BAR"}, {M: "GET"}}, []int{gen.IntR(t, 0, 5, "v0"), gen.IntR(t, 0, 5, "v1")})
			per := map[string][]string{}
			for i, v := range vs {
				pats := []string{"/v" + fmt.Sprint(i)}
				if gen.Chance(t, 1, 2, "vtwo") {
					pats = append(pats, "/v"+fmt.Sprint(i)+"/{p}")
				}
				for _, p := range pats {
					pre = append(pre, hist.Op{Kind: "handle", Method: v.M, Pattern: p})
					verbSrc = append(verbSrc, hist.Key{M: v.M, P: p})
				}
				per[v.M] = pats
			}
			victim := vs[0].M
			if gen.Chance(t, 1, 3, "vother") {
				victim = vs[gen.IntR(t, 0, 2, "vwhich")].M
			}
			if gen.Chance(t, 1, 2, "vtruncate") {
				pre = append(pre, hist.Op{Kind: "truncate", Methods: []string{victim}})
			} else {
				for _, p := range per[victim] {
					pre = append(pre, hist.Op{Kind: "delete", Method: victim, Pattern: p})
				}
			}
		}
		n := gen.IntR(t, 3, 40, "nops")
		for i := 0; i < n+len(pre); i++ {
			var op hist.Op
			if i < len(pre) {
				op = pre[i]
			} else {
				op = scratch.GenOp(t, g)
			}
			if op.Kind == "view" {
				continue // read-only: irrelevant for this property
			}
			// all routes of this check inherit or set ignore/redirect only through handle/update
			c.Ops = append(c.Ops, op)
			if err := scratch.Apply(op); err != nil {
				scratch.Close()
				stats.Fail("two-histories", c, "history: %v", err)
				t.Fatalf("%v", err)
			}
		}
		pool := scratch.Pool
		scratch.Close()
		for range scratch.Model {
			c.Order = append(c.Order, gen.IntR(t, 0, 50, "rank"))
		}
		// probes: every surviving pattern and some removed ones, each as instantiated, slash-toggled and mutated
		srcs := append([]string(nil), wide...)
		methodOf := map[string]string{}
		for _, k := range scratch.Model.Keys() {
			srcs = append(srcs, k.P)
			methodOf[k.P] = k.M
		}
		for _, op := range flatten(c.Ops) {
			if _, ok := methodOf[op.Pattern]; !ok && op.Method != "" {
				methodOf[op.Pattern] = op.Method // a pattern that was removed again: the method it lived under
			}
		}
		for i := 0; i < 4 && len(pool) > 0; i++ {
			srcs = append(srcs, gen.Pick(t, pool, "src"))
		}
		if len(srcs) > 14 {
			srcs = srcs[:14]
		}
		for _, p := range srcs {
			if !ref.ValidPattern(p, 1<<16, 1<<16) || hist.OutOfDomain(p) {
				continue
			}
			host, path := gen.Instantiate(t, p)
			if gen.Chance(t, 1, 5, "hostmut") {
				host = gen.MutateHost(t, host)
			}
			m := gen.Pick(t, append(methods, "OPTIONS"), "method")
			if own, ok := methodOf[p]; ok && gen.Chance(t, 2, 3, "ownmethod") {
				m = own // mostly under the method the pattern is or was registered with
			}
			toggled := path + "/"
			if len(path) > 1 && strings.HasSuffix(path, "/") {
				toggled = path[:len(path)-1]
			}
			for _, q := range []string{path, toggled, gen.MutatePath(t, path)} {
				if !strings.Contains(q, "//") {
					c.Probes = append(c.Probes, rt.Req{Method: m, Host: host, Path: q})
				}
			}
		}
		for _, k := range verbSrc {
			for _, m := range []string{k.M, "OPTIONS"} {
				c.Probes = append(c.Probes, rt.Req{Method: m, Path: strings.ReplaceAll(k.P, "{p}", "x")})
			}
		}
		if len(verbSrc) > 0 {
			stats.Class("history-emptying-one-of-several-uncommon-verbs")
		}
		stats.EvalN(len(c.Probes))
		stats.Sample(c)
		// non-trivial: a delete shared a >=2 byte prefix with a survivor (a merge happened)
		for _, op := range flatten(c.Ops) {
			if op.Kind != "delete" {
				continue
			}
			for k := range scratch.Model {
				if k.M == op.Method && k.P != op.Pattern && common(k.P, op.Pattern) >= 2 {
					stats.NonTrivial(fmt.Sprintf("%+v|%v|%v", c.G, c.Ops, c.Order))
					stats.Class("history-with-delete-sharing-prefix-with-survivor")
				}
			}
		}
		if err := checkCase(c, true); err != nil {
			stats.Fail("two-histories", c, "%v", err)
			t.Fatalf("%v", err)
		}
	})
}

func flatten(ops []hist.Op) []hist.Op {
	var out []hist.Op
	for _, op := range ops {
		out = append(out, op)
		out = append(out, flatten(op.Body)...)
	}
	return out
}

func common(a, b string) int {
	n := 0
	for n < len(a) && n < len(b) && a[n] == b[n] {
		n++
	}
	return n
}

// ---- all permutations of small sets ----

type PermCase struct {
	G      rt.Global      `json:"global"`
	Routes []rt.RouteSpec `json:"routes"`
	Probes []rt.Req       `json:"probes"`
}

func perms(n int) [][]int {
	if n == 0 {
		return [][]int{{}}
	}
	var out [][]int
	for _, p := range perms(n - 1) {
		for i := 0; i <= len(p); i++ {
			q := append(append(append([]int{}, p[:i]...), n-1), p[i:]...)
			out = append(out, q)
		}
	}
	return out
}

func checkPerms(c *PermCase) error {
	base, err := rt.New(c.G, c.Routes)
	if err != nil || len(base.Routes) != len(c.Routes) {
		return nil // conflicting set: registration order decides what is accepted, not in this property's domain
	}
	want := make([]outcome, len(c.Probes))
	for i, q := range c.Probes {
		want[i] = observe(base.F, base.Sink, q)
	}
	for _, p := range perms(len(c.Routes))[1:] {
		specs := make([]rt.RouteSpec, len(p))
		for i, j := range p {
			specs[i] = c.Routes[j]
		}
		r, err := rt.New(c.G, specs)
		if err != nil || len(r.Routes) != len(specs) {
			return fmt.Errorf("set %v is accepted in the given order but not in order %v", c.Routes, specs)
		}
		for i, q := range c.Probes {
			if got := observe(r.F, r.Sink, q); !reflect.DeepEqual(got, want[i]) {
				return fmt.Errorf("options %+v, request %s host=%q path=%q:\n  inserted as %v: %+v\n  inserted as %v: %+v", c.G, q.Method, q.Host, q.Path, c.Routes, want[i], specs, got)
			}
		}
	}
	return nil
}

func TestPermutations(t *testing.T) {
	rapid.Check(t, func(t *rapid.T) {
		c := &PermCase{}
		c.G.TS = gen.Pick(t, []int{rt.TSNone, rt.TSIgnore, rt.TSRedirect}, "globalTS")
		c.G.NoMethod = gen.Chance(t, 1, 2, "noMethod")
		n := gen.IntR(t, 2, 5, "nroutes")
		var pool []string
		hostW := gen.Pick(t, []int{3, 1000}, "hostweight")
		for i := 0; i < n; i++ {
			p := gen.Pattern(t, pool, hostW, true)
			pool = append(pool, p)
			c.Routes = append(c.Routes, rt.RouteSpec{Method: gen.Pick(t, []string{"GET", "GET", "POST"}, "method"), Pattern: p, TS: gen.Pick(t, []int{0, 0, 1, 2}, "ts")})
		}
		for i := 0; i < 12; i++ {
			p := gen.Pick(t, pool, "src")
			if !ref.ValidPattern(p, 1<<16, 1<<16) || hist.OutOfDomain(p) {
				continue
			}
			host, path := gen.Instantiate(t, p)
			c.Probes = append(c.Probes, rt.Req{Method: gen.Pick(t, []string{"GET", "POST", "OPTIONS"}, "method"), Host: host, Path: gen.MutatePath(t, path)})
		}
		defer stats.Guard("permutations", func() any { return c })()
		stats.EvalN(len(c.Probes))
		if err := checkPerms(c); err != nil {
			stats.Fail("permutations", c, "%v", err)
			t.Fatalf("%v", err)
		}
		stats.Class(fmt.Sprintf("permutations-of-%d-routes", len(c.Routes)))
		stats.NonTrivial(fmt.Sprintf("perm|%+v|%v", c.G, c.Routes))
	})
}
