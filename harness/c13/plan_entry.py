ENTRY = {
    "C13": dict(
        pkg="c13", level="exploration",
        technique="configuration sweep (rapid + exhaustive scope masks) with a trace oracle (expected ordered list of middleware ids per handler kind), plus concurrent route creation under the race detector",
        level_text="Lists of 0-6 global middleware with arbitrary scope masks (WithMiddleware, WithMiddlewareFor, DefaultOptions at any position) and 0-3 "
                   "route middleware per route, with and without Update, are installed; every middleware appends its id to a per-request trace. For each of the "
                   "five handler kinds, and for Route.Handle / Route.HandleMiddleware, the trace must equal the in-scope global ids in registration order, then the "
                   "route's own ids, each exactly once. All 32 scope masks are enumerated. Concurrently created routes (race detector on) must keep their own chain.",
        level_note="The concurrent part samples schedules; the race detector turns the shared-backing-array write into a report even when the trace happens to be right.",
        level_more='Later additions: updates done as an upsert transaction (refused Handle, then Update), an alias route serving other routes through Route.Handle / Route.HandleMiddleware, an aliasing no-route middleware, unusual last segments on the redirect route, a spread middleware slice reused after New, handlers given before middleware options.',
        rule="cases: middleware configurations; non-trivial = >= 2 scoped global middleware and >= 1 route middleware (or an enumerated mask case, or a concurrent plan); distinct by configuration",
        assumptions=["middleware identity is observed through a per-request trace carried in the request context"],
        quick=[REPLAY,
               R("configurations", "^(TestConfigurations|TestExhaustiveMasks)$", checks=4000, timeout=600),
               R("concurrent", "^TestConcurrentCreation$", checks=40, race=True, timeout=600)],
        thorough=[REPLAY,
                  R("configurations", "^(TestConfigurations|TestExhaustiveMasks)$", checks=30000, shards=16, timeout=3000),
                  R("concurrent", "^TestConcurrentCreation$", checks=400, race=True, shards=8, timeout=3000)],
        replay_race=True,
    ),
}
