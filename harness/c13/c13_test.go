// C13 — middleware is applied exactly per scope and in registration order.
package c13

import (
	"context"
	"encoding/json"
	"errors"
	"fmt"
	"net/http"
	"net/http/httptest"
	"os"
	"strings"
	"sync"
	"testing"

	"github.com/tigerwill90/fox"
	"pgregory.net/rapid"

	"verif/gen"
	"verif/stats"
)

func TestMain(m *testing.M) {
	stats.Init("C13")
	stats.RegisterReplay("middleware", func(raw json.RawMessage) error {
		var c Case
		if err := json.Unmarshal(raw, &c); err != nil {
			return err
		}
		return checkCase(&c)
	})
	stats.RegisterReplay("middleware-concurrent", func(raw json.RawMessage) error {
		var c ConcCase
		if err := json.Unmarshal(raw, &c); err != nil {
			return err
		}
		for i := 0; i < 5; i++ {
			if err := checkConcurrent(&c); err != nil {
				return err
			}
		}
		return nil
	})
	os.Exit(stats.Finish(m.Run()))
}

func TestReplay(t *testing.T) { stats.RunReplays(t) }

// GM is one global middleware registration.
type GM struct {
	Scope uint8 `json:"scope"` // HandlerScope mask; 255 via WithMiddleware means AllHandlers
	All   bool  `json:"all"`   // registered through WithMiddleware (all handlers) instead of WithMiddlewareFor
}

type RouteCfg struct {
	N       int `json:"n"`       // number of route-specific middleware at creation
	Updated int `json:"updated"` // -1: never updated; otherwise number of route middleware after Update
}

type Case struct {
	Globals   []GM       `json:"globals"`
	DefaultAt int        `json:"default_options_at"` // position of DefaultOptions() among the global options, -1 = absent
	Routes    []RouteCfg `json:"routes"`
	// HandlersFirst: the custom no-route, no-method and options handlers are given before the middleware options (and before
	// DefaultOptions, if any) instead of after them: an option list is a set of settings, their order does not pick the handler
	HandlersFirst bool `json:"handlers_first,omitempty"`
	// Upsert: updated routes are swapped in by one transaction that first tries to register the route again with its old
	// options (refused: it exists) and then updates it with the new ones
	Upsert bool `json:"upsert,omitempty"`
	// Spread: two more router-wide middleware are given last, as one slice spread into WithMiddleware; once New has returned the
	// caller reuses that slice for something else. What was configured is what was in it when the option was built.
	Spread bool `json:"spread,omitempty"`
}

type traceKey struct{}

// tracer is kept out of line on purpose: every middleware of a case, router-wide or route-specific, is then a closure of one
// and the same function literal (same code, different captured id) - what a table- or loop-built configuration looks like.
//
//go:noinline
func tracer(id string) fox.MiddlewareFunc {
	return func(next fox.HandlerFunc) fox.HandlerFunc {
		return func(c fox.Context) {
			if tr, ok := c.Request().Context().Value(traceKey{}).(*[]string); ok {
				*tr = append(*tr, id)
			}
			next(c)
		}
	}
}

func endpoint(id string, code int) fox.HandlerFunc {
	return func(c fox.Context) {
		if tr, ok := c.Request().Context().Value(traceKey{}).(*[]string); ok {
			*tr = append(*tr, "H:"+id)
		}
		c.Writer().WriteHeader(code)
	}
}

func request(method, path string) (*http.Request, *[]string) {
	tr := &[]string{}
	req := httptest.NewRequest(method, path, nil)
	return req.WithContext(context.WithValue(req.Context(), traceKey{}, tr)), tr
}

func (c *Case) globalsFor(scope fox.HandlerScope) []string {
	var out []string
	for i, g := range c.Globals {
		mask := fox.HandlerScope(g.Scope)
		if g.All {
			mask = fox.AllHandlers
		}
		if mask&scope != 0 {
			out = append(out, fmt.Sprintf("g%d", i))
		}
	}
	if c.Spread {
		out = append(out, "x0", "x1")
	}
	return out
}

func ids(prefix string, r, n int) []string {
	var out []string
	for j := 0; j < n; j++ {
		out = append(out, fmt.Sprintf("%s%d.%d", prefix, r, j))
	}
	return out
}

func routeOpts(prefix string, r, n int) []fox.RouteOption {
	var ms []fox.MiddlewareFunc
	for _, id := range ids(prefix, r, n) {
		ms = append(ms, tracer(id))
	}
	if len(ms) == 0 {
		return nil
	}
	// half of the time as one option, half as several
	if r%2 == 0 {
		return []fox.RouteOption{fox.WithMiddleware(ms...)}
	}
	var out []fox.RouteOption
	for _, m := range ms {
		out = append(out, fox.WithMiddleware(m))
	}
	return out
}

// routePattern / routePath: the routes of a case take different shapes (parameter, infix catch-all kept in one tree node,
// static, ending catch-all, infix catch-all with a sibling below it): the chain a route is served with must not depend on
// how the tree stores it.
func routePattern(i int) string {
	switch i % 5 {
	case 1:
		return fmt.Sprintf("/r%d/*{c}/tail", i)
	case 2:
		return fmt.Sprintf("/r%d/static", i)
	case 3:
		return fmt.Sprintf("/r%d/*{c}", i)
	case 4:
		return fmt.Sprintf("/r%d/{p}/*{c}/end/{q}", i)
	}
	return fmt.Sprintf("/r%d/{p}", i)
}

func routePath(i int) string {
	switch i % 5 {
	case 1:
		return fmt.Sprintf("/r%d/a/b/tail", i)
	case 2:
		return fmt.Sprintf("/r%d/static", i)
	case 3:
		return fmt.Sprintf("/r%d/a/b", i)
	case 4:
		return fmt.Sprintf("/r%d/x/a/b/end/y", i)
	}
	return fmt.Sprintf("/r%d/x", i)
}

func build(c *Case) (*fox.Router, error) {
	var opts []fox.GlobalOption
	for i, g := range c.Globals {
		if i == c.DefaultAt {
			opts = append(opts, fox.DefaultOptions())
		}
		if g.All {
			opts = append(opts, fox.WithMiddleware(tracer(fmt.Sprintf("g%d", i))))
		} else {
			opts = append(opts, fox.WithMiddlewareFor(fox.HandlerScope(g.Scope), tracer(fmt.Sprintf("g%d", i))))
		}
	}
	if c.DefaultAt >= len(c.Globals) {
		opts = append(opts, fox.DefaultOptions())
	}
	// innermost for the no-route handler only, and without a trace of its own: for a request carrying X-Alias-Method/-Pattern it
	// serves the named route in place of the no-route handler through Route.HandleMiddleware (an alias resolved after a manual
	// look-up), which runs the route-specific chain only - no global middleware a second time
	opts = append(opts, fox.WithMiddlewareFor(fox.NoRouteHandler, func(next fox.HandlerFunc) fox.HandlerFunc {
		return func(c fox.Context) {
			if p := c.Request().Header.Get("X-Alias-Pattern"); p != "" {
				if rte := c.Fox().Route(c.Request().Header.Get("X-Alias-Method"), p); rte != nil {
					if c.Request().Header.Get("X-Alias-Bare") != "" {
						rte.Handle(c)
					} else {
						rte.HandleMiddleware(c)
					}
					return
				}
			}
			next(c)
		}
	}))
	var stack []fox.MiddlewareFunc
	if c.Spread {
		stack = []fox.MiddlewareFunc{tracer("x0"), tracer("x1")}
		// before the aliasing no-route middleware, which stays innermost
		opts = append(opts[:len(opts)-1:len(opts)-1], fox.WithMiddleware(stack...), opts[len(opts)-1])
		defer func() { stack[0], stack[1] = tracer("reused0"), tracer("reused1") }()
	}
	handlers := []fox.GlobalOption{
		fox.WithNoRouteHandler(endpoint("noroute", 404)),
		fox.WithNoMethodHandler(endpoint("nomethod", 405)),
		fox.WithOptionsHandler(endpoint("options", 200)),
	}
	if c.HandlersFirst {
		return fox.New(append(handlers, opts...)...)
	}
	return fox.New(append(opts, handlers...)...)
}

func expectTrace(got []string, want []string) error {
	if strings.Join(got, " ") != strings.Join(want, " ") {
		return fmt.Errorf("middleware trace [%s], want [%s]", strings.Join(got, " "), strings.Join(want, " "))
	}
	return nil
}

func serve(f *fox.Router, method, path string) []string {
	req, tr := request(method, path)
	f.ServeHTTP(httptest.NewRecorder(), req)
	return *tr
}

func checkCase(c *Case) (err error) {
	defer func() {
		if r := recover(); r != nil {
			err = fmt.Errorf("panic: %v", r)
		}
	}()
	f, e := build(c)
	if e != nil {
		return fmt.Errorf("configuration %+v rejected: %v", c, e)
	}
	desc := fmt.Sprintf("globals=%+v defaultOptionsAt=%d: ", c.Globals, c.DefaultAt)
	// a router without any route answers everything through the no-route handler, with that handler's chain
	empty := func(state string) error {
		for _, q := range [][2]string{{"GET", "/nothing"}, {"OPTIONS", "/nothing"}, {"OPTIONS", "*"}, {"POST", "/redir/"}, {"BREW", "/r0/x"}, {"GET", "/"}} {
			want := append(c.globalsFor(fox.NoRouteHandler), "H:noroute")
			if err := expectTrace(serve(f, q[0], q[1]), want); err != nil {
				return fmt.Errorf("%s%s, request %s %s, no-route handler: %w", desc, state, q[0], q[1], err)
			}
		}
		return nil
	}
	if err := empty("router without any route yet"); err != nil {
		return err
	}
	defer func() {
		if err != nil {
			return
		}
		// the same once every route is gone again: deleted one by one, or truncated in one transaction
		if len(c.Routes)%2 == 0 {
			var all [][2]string
			for m, rte := range f.Iter().All() {
				all = append(all, [2]string{m, rte.Pattern()})
			}
			for _, mp := range all {
				if _, e := f.Delete(mp[0], mp[1]); e != nil {
					err = fmt.Errorf("%sdeleting %s %s: %v", desc, mp[0], mp[1], e)
					return
				}
			}
		} else if e := f.Updates(func(txn *fox.Txn) error { return txn.Truncate() }); e != nil {
			err = fmt.Errorf("%struncating: %v", desc, e)
			return
		}
		if n := f.Len(); n != 0 {
			err = fmt.Errorf("%sLen() = %d after removing every route", desc, n)
			return
		}
		err = empty("router emptied again")
	}()
	// routes: /r<i> (plain), plus one redirecting route
	for i, rc := range c.Routes {
		ro := routeOpts("m", i, rc.N)
		if len(ro) >= 2 {
			// one option list used for two registrations: a sibling route takes its first option only, then the route itself
			// takes the whole list (the shorter slice shares the longer one's backing array)
			if _, err := f.Handle("GET", fmt.Sprintf("/so/%d", i), endpoint(fmt.Sprintf("so%d", i), 200), ro[:1]...); err != nil {
				return fmt.Errorf("%sregistering the sibling of route %d: %v", desc, i, err)
			}
		}
		if _, err := f.Handle("GET", routePattern(i), endpoint(fmt.Sprintf("r%d", i), 200), ro...); err != nil {
			return fmt.Errorf("%sregistering route %d: %v", desc, i, err)
		}
		if len(ro) >= 2 {
			want := append(append(c.globalsFor(fox.RouteHandler), ids("m", i, rc.N)[0]), fmt.Sprintf("H:so%d", i))
			if err := expectTrace(serve(f, "GET", fmt.Sprintf("/so/%d", i)), want); err != nil {
				return fmt.Errorf("%ssibling of route %d, registered with the first of the route's %d options: %w", desc, i, len(ro), err)
			}
		}
	}
	if _, err := f.Handle("GET", "/redir/", endpoint("redir", 200), fox.WithRedirectTrailingSlash(true)); err != nil {
		return fmt.Errorf("%s%v", desc, err)
	}
	if _, err := f.Handle("GET", "/rp/{p}", endpoint("rp", 200), fox.WithRedirectTrailingSlash(true)); err != nil {
		return fmt.Errorf("%s%v", desc, err)
	}
	// routes served by ignoring a trailing slash (added and removed) are route handlers like any other
	ignOpts := append(routeOpts("i", 0, 2), fox.WithIgnoreTrailingSlash(true))
	if _, err := f.Handle("GET", "/ign/{p}", endpoint("ign", 200), ignOpts...); err != nil {
		return fmt.Errorf("%s%v", desc, err)
	}
	if _, err := f.Handle("GET", "/igs/{p}/", endpoint("igs", 200), append(routeOpts("j", 1, 1), fox.WithIgnoreTrailingSlash(true))...); err != nil {
		return fmt.Errorf("%s%v", desc, err)
	}
	for i, rc := range c.Routes {
		if rc.Updated >= 0 && c.Upsert {
			ep := endpoint(fmt.Sprintf("r%d'", i), 200)
			err := f.Updates(func(txn *fox.Txn) error {
				if _, err := txn.Handle("GET", routePattern(i), ep, routeOpts("m", i, rc.N)...); !errors.Is(err, fox.ErrRouteExist) {
					return fmt.Errorf("registering route %d again: %v, want ErrRouteExist", i, err)
				}
				_, err := txn.Update("GET", routePattern(i), ep, routeOpts("u", i, rc.Updated)...)
				return err
			})
			if err != nil {
				return fmt.Errorf("%supdating route %d in a transaction: %v", desc, i, err)
			}
		} else if rc.Updated >= 0 {
			if _, err := f.Update("GET", routePattern(i), endpoint(fmt.Sprintf("r%d'", i), 200), routeOpts("u", i, rc.Updated)...); err != nil {
				return fmt.Errorf("%supdating route %d: %v", desc, i, err)
			}
		}
	}
	// a registered route with a middleware of its own whose handler serves another registered route in its place (an alias kept
	// for old clients), through Route.Handle or Route.HandleMiddleware, on its own context - a context matched to another pattern
	if _, err := f.Handle("GET", "/as/{k}", func(c fox.Context) {
		if rte := c.Fox().Route("GET", c.Request().Header.Get("X-As-Target")); rte != nil {
			if c.Request().Header.Get("X-As-Mw") != "" {
				rte.HandleMiddleware(c)
			} else {
				rte.Handle(c)
			}
		}
	}, fox.WithMiddleware(tracer("as"))); err != nil {
		return fmt.Errorf("%s%v", desc, err)
	}
	// route handlers: globals with RouteHandler scope, then the route's own, each once, then the handler
	for i, rc := range c.Routes {
		rids, hid := ids("m", i, rc.N), fmt.Sprintf("H:r%d", i)
		if rc.Updated >= 0 {
			rids, hid = ids("u", i, rc.Updated), fmt.Sprintf("H:r%d'", i)
		}
		want := append(append(c.globalsFor(fox.RouteHandler), rids...), hid)
		if err := expectTrace(serve(f, "GET", routePath(i)), want); err != nil {
			return fmt.Errorf("%sroute %d (%+v) served through ServeHTTP: %w", desc, i, rc, err)
		}
		// the same two entry points used from inside the no-route chain, on that chain's own context
		for _, bare := range []bool{false, true} {
			areq, atr := request("GET", fmt.Sprintf("/alias-of/%d", i))
			areq.Header.Set("X-Alias-Method", "GET")
			areq.Header.Set("X-Alias-Pattern", routePattern(i))
			wantAlias := append(append(c.globalsFor(fox.NoRouteHandler), rids...), hid)
			if bare {
				areq.Header.Set("X-Alias-Bare", "1")
				wantAlias = append(c.globalsFor(fox.NoRouteHandler), hid)
			}
			f.ServeHTTP(httptest.NewRecorder(), areq)
			if err := expectTrace(*atr, wantAlias); err != nil {
				return fmt.Errorf("%sroute %d (%+v) run from a no-route middleware through Route.HandleMiddleware (Route.Handle: %v) on the no-route context: %w", desc, i, rc, bare, err)
			}
		}
		for _, withMw := range []bool{false, true} {
			areq, atr := request("GET", fmt.Sprintf("/as/%d", i))
			areq.Header.Set("X-As-Target", routePattern(i))
			wantAs := append(append(c.globalsFor(fox.RouteHandler), "as"), hid)
			if withMw {
				areq.Header.Set("X-As-Mw", "1")
				wantAs = append(append(append(c.globalsFor(fox.RouteHandler), "as"), rids...), hid)
			}
			f.ServeHTTP(httptest.NewRecorder(), areq)
			if err := expectTrace(*atr, wantAs); err != nil {
				return fmt.Errorf("%sroute %d (%+v) run from the handler of route /as/{k} (own middleware \"as\") through Route.Handle (Route.HandleMiddleware: %v): %w", desc, i, rc, withMw, err)
			}
		}
		// Route.Handle: bare handler; Route.HandleMiddleware: only the route-specific chain
		req, tr := request("GET", routePath(i))
		rte, cc, _ := f.Lookup(fox.NewTestContextOnly(httptest.NewRecorder(), req).Writer(), req)
		if rte == nil {
			return fmt.Errorf("%sroute %d not found by Lookup", desc, i)
		}
		rte.Handle(cc)
		if err := expectTrace(*tr, []string{hid}); err != nil {
			cc.Close()
			return fmt.Errorf("%sroute %d (%+v) Route.Handle: %w", desc, i, rc, err)
		}
		*tr = (*tr)[:0]
		rte.HandleMiddleware(cc)
		cc.Close()
		if err := expectTrace(*tr, append(append([]string{}, rids...), hid)); err != nil {
			return fmt.Errorf("%sroute %d (%+v) Route.HandleMiddleware: %w", desc, i, rc, err)
		}
	}
	for _, tc := range []struct {
		path, end string
		rids      []string
	}{
		{"/ign/x", "H:ign", ids("i", 0, 2)}, {"/ign/x/", "H:ign", ids("i", 0, 2)},
		{"/igs/x/", "H:igs", ids("j", 1, 1)}, {"/igs/x", "H:igs", ids("j", 1, 1)},
	} {
		want := append(append(c.globalsFor(fox.RouteHandler), tc.rids...), tc.end)
		if err := expectTrace(serve(f, "GET", tc.path), want); err != nil {
			return fmt.Errorf("%srequest %s (route with ignored trailing slash): %w", desc, tc.path, err)
		}
	}
	// one option value applied to several routes and again on Update: options are values, applying one does not change it
	shared := fox.WithMiddleware(tracer("s0"), tracer("s1"))
	for _, step := range []struct{ op, pat, h string }{{"handle", "/sh/a", "sha"}, {"handle", "/sh/b/{p}", "shb"}, {"update", "/sh/a", "sha2"}, {"newroute", "/sh/c", "shc"}, {"update", "/sh/b/{p}", "shb2"}} {
		var rte *fox.Route
		var err error
		switch step.op {
		case "handle":
			rte, err = f.Handle("GET", step.pat, endpoint(step.h, 200), shared)
		case "update":
			rte, err = f.Update("GET", step.pat, endpoint(step.h, 200), shared)
		default:
			rte, err = f.NewRoute(step.pat, endpoint(step.h, 200), shared)
		}
		if err != nil {
			return fmt.Errorf("%s%s %s with a shared option value: %v", desc, step.op, step.pat, err)
		}
		req, tr := request("GET", strings.Replace(step.pat, "{p}", "x", 1))
		cc := fox.NewTestContextOnly(httptest.NewRecorder(), req)
		rte.HandleMiddleware(cc)
		if err := expectTrace(*tr, []string{"s0", "s1", "H:" + step.h}); err != nil {
			return fmt.Errorf("%s%s %s with an option value already used for other routes, Route.HandleMiddleware: %w", desc, step.op, step.pat, err)
		}
		if step.op != "newroute" {
			want := append(c.globalsFor(fox.RouteHandler), "s0", "s1", "H:"+step.h)
			if err := expectTrace(serve(f, "GET", strings.Replace(step.pat, "{p}", "x", 1)), want); err != nil {
				return fmt.Errorf("%s%s %s with an option value already used for other routes, served: %w", desc, step.op, step.pat, err)
			}
		}
	}
	special := []struct {
		name, method, path string
		scope              fox.HandlerScope
		end                string
	}{
		{"no-route", "GET", "/nothing", fox.NoRouteHandler, "H:noroute"},
		{"no-method", "POST", "/redir/", fox.NoMethodHandler, "H:nomethod"},
		{"options", "OPTIONS", "/redir/", fox.OptionsHandler, "H:options"},
		// the server-wide form: answered by the options handler alone, once
		{"options for the target *", "OPTIONS", "*", fox.OptionsHandler, "H:options"},
		// automatic OPTIONS is on, but no method has a route for this path: the request ends in the no-route handler, with its chain
		{"no-route reached by OPTIONS", "OPTIONS", "/nothing/at/all", fox.NoRouteHandler, "H:noroute"},
		{"no-route reached by a custom method", "BREW", "/nothing", fox.NoRouteHandler, "H:noroute"},
		{"redirect", "GET", "/redir", fox.RedirectHandler, ""},
		// redirects whose last segment is unusual: the redirect handler answers them all, once, under its own chain
		{"redirect, escaped dot-dot segment", "GET", "/rp/%2e%2e/", fox.RedirectHandler, ""},
		{"redirect, escaped dot segment", "GET", "/rp/%2E/", fox.RedirectHandler, ""},
		{"redirect, escaped slash in the segment", "GET", "/rp/a%2Fb/", fox.RedirectHandler, ""},
		{"redirect, colon in the segment", "GET", "/rp/a:b/", fox.RedirectHandler, ""},
		{"redirect, query", "GET", "/rp/x/?q=%C3%A9&r=1", fox.RedirectHandler, ""},
	}
	for _, s := range special {
		want := c.globalsFor(s.scope)
		if s.end != "" {
			want = append(want, s.end)
		}
		if err := expectTrace(serve(f, s.method, s.path), want); err != nil {
			return fmt.Errorf("%s%s handler: %w", desc, s.name, err)
		}
	}
	return nil
}

var scopeBits = []uint8{uint8(fox.RouteHandler), uint8(fox.NoRouteHandler), uint8(fox.NoMethodHandler), uint8(fox.RedirectHandler), uint8(fox.OptionsHandler)}

func TestConfigurations(t *testing.T) {
	rapid.Check(t, func(t *rapid.T) {
		c := &Case{DefaultAt: -1}
		ng := gen.IntR(t, 0, 6, "nglobals")
		masks := 0
		for i := 0; i < ng; i++ {
			g := GM{All: gen.Chance(t, 1, 4, "all")}
			if !g.All {
				for _, b := range scopeBits {
					if gen.Chance(t, 1, 2, "bit") {
						g.Scope |= b
					}
				}
				if gen.Chance(t, 1, 10, "junkbits") {
					g.Scope |= uint8(gen.IntR(t, 1, 7, "junk"))
				}
				masks++
			}
			c.Globals = append(c.Globals, g)
		}
		if gen.Chance(t, 1, 12, "defaultOptions") {
			c.DefaultAt = gen.IntR(t, 0, ng, "defaultAt")
		}
		c.HandlersFirst = gen.Chance(t, 1, 3, "handlersfirst")
		c.Upsert = gen.Chance(t, 1, 3, "upsert")
		c.Spread = gen.Chance(t, 1, 3, "spread")
		nr := gen.IntR(t, 1, 3, "nroutes")
		routeMw := 0
		for i := 0; i < nr; i++ {
			rc := RouteCfg{N: gen.IntR(t, 0, 3, "nmw"), Updated: -1}
			if gen.Chance(t, 1, 3, "update") {
				rc.Updated = gen.IntR(t, 0, 3, "numw")
			}
			routeMw += rc.N
			c.Routes = append(c.Routes, rc)
		}
		defer stats.Guard("middleware", func() any { return c })()
		stats.Eval()
		stats.Sample(c)
		stats.Class(fmt.Sprintf("globals:%d", ng))
		if c.DefaultAt >= 0 {
			stats.Class("with-DefaultOptions")
		}
		if masks >= 2 && routeMw >= 1 {
			stats.NonTrivial(fmt.Sprintf("%+v", *c))
		}
		if err := checkCase(c); err != nil {
			stats.Fail("middleware", c, "%v", err)
			t.Fatalf("%v", err)
		}
	})
}

// exhaustive: every scope mask (32) for one scoped middleware between two all-scope ones x 0..2 route middleware
func TestExhaustiveMasks(t *testing.T) {
	for mask := 0; mask < 32; mask++ {
		for pos := 0; pos < 3; pos++ {
			for n := 0; n <= 2; n++ {
				g := GM{Scope: uint8(mask) << 3}
				c := &Case{DefaultAt: -1, Routes: []RouteCfg{{N: n, Updated: -1}, {N: 2 - n, Updated: n}}}
				for i := 0; i < 3; i++ {
					if i == pos {
						c.Globals = append(c.Globals, g)
					} else {
						c.Globals = append(c.Globals, GM{All: true})
					}
				}
				stats.Eval()
				stats.NonTrivial(fmt.Sprintf("exh|%+v", *c))
				if err := checkCase(c); err != nil {
					stats.Fail("middleware", c, "%v", err)
					t.Fatalf("%v", err)
				}
			}
		}
	}
	stats.Note("exhaustive", "all 32 scope masks x 3 positions among all-scope middleware x 0..2 route middleware, with and without Update")
}

// ---- concurrent creation of routes with route-specific middleware (run with -race) ----

type ConcCase struct {
	Globals int  `json:"globals"`
	Workers int  `json:"workers"`
	PerW    int  `json:"routes_per_worker"`
	Txn     bool `json:"via_newroute_only"`
	// Scoped: additional global middleware whose scope excludes route handlers (they never run for a route, but they are
	// part of the router-wide list every new route starts from)
	Scoped int `json:"scoped_globals,omitempty"`
}

func checkConcurrent(c *ConcCase) error {
	var opts []fox.GlobalOption
	for i := 0; i < max(c.Globals, c.Scoped); i++ {
		if i < c.Scoped {
			opts = append(opts, fox.WithMiddlewareFor(fox.NoRouteHandler|fox.NoMethodHandler, tracer(fmt.Sprintf("s%d", i))))
		}
		if i < c.Globals {
			opts = append(opts, fox.WithMiddleware(tracer(fmt.Sprintf("g%d", i))))
		}
	}
	f, err := fox.New(opts...)
	if err != nil {
		return nil
	}
	type made struct {
		w, i int
		rte  *fox.Route
	}
	var mu sync.Mutex
	var all []made
	var wg sync.WaitGroup
	start := make(chan struct{})
	for w := 0; w < c.Workers; w++ {
		wg.Add(1)
		go func(w int) {
			defer wg.Done()
			<-start
			for i := 0; i < c.PerW; i++ {
				id := w*1000 + i
				var rte *fox.Route
				var err error
				if c.Txn {
					rte, err = f.NewRoute(fmt.Sprintf("/w%d/%d", w, i), endpoint(fmt.Sprint(id), 200), fox.WithMiddleware(tracer(fmt.Sprintf("m%d", id))))
				} else {
					rte, err = f.Handle("GET", fmt.Sprintf("/w%d/%d", w, i), endpoint(fmt.Sprint(id), 200), fox.WithMiddleware(tracer(fmt.Sprintf("m%d", id))))
				}
				if err == nil {
					mu.Lock()
					all = append(all, made{w, i, rte})
					mu.Unlock()
				}
			}
		}(w)
	}
	close(start)
	wg.Wait()
	var want []string
	for i := 0; i < c.Globals; i++ {
		want = append(want, fmt.Sprintf("g%d", i))
	}
	for _, m := range all {
		id := m.w*1000 + m.i
		req, tr := request("GET", fmt.Sprintf("/w%d/%d", m.w, m.i))
		cc := fox.NewTestContextOnly(httptest.NewRecorder(), req)
		m.rte.HandleMiddleware(cc)
		if err := expectTrace(*tr, []string{fmt.Sprintf("m%d", id), fmt.Sprintf("H:%d", id)}); err != nil {
			return fmt.Errorf("%d global middleware, %d goroutines creating routes concurrently: route /w%d/%d own chain: %w", c.Globals, c.Workers, m.w, m.i, err)
		}
		if !c.Txn {
			got := serve(f, "GET", fmt.Sprintf("/w%d/%d", m.w, m.i))
			if err := expectTrace(got, append(append([]string{}, want...), fmt.Sprintf("m%d", id), fmt.Sprintf("H:%d", id))); err != nil {
				return fmt.Errorf("%d global middleware, %d goroutines creating routes concurrently: route /w%d/%d: %w", c.Globals, c.Workers, m.w, m.i, err)
			}
		}
	}
	return nil
}

func TestConcurrentCreation(t *testing.T) {
	rapid.Check(t, func(t *rapid.T) {
		c := &ConcCase{Globals: gen.IntR(t, 0, 7, "globals"), Workers: gen.IntR(t, 2, 8, "workers"), PerW: gen.IntR(t, 5, 60, "per"), Txn: gen.Chance(t, 1, 2, "newroute"), Scoped: gen.Pick(t, []int{0, 0, 1, 2, 5}, "scoped")}
		stats.EvalN(c.Workers * c.PerW)
		stats.Class(fmt.Sprintf("concurrent:globals=%d", c.Globals))
		stats.NonTrivial(fmt.Sprintf("conc|%+v", *c))
		if err := checkConcurrent(c); err != nil {
			stats.Fail("middleware-concurrent", c, "%v", err)
			t.Fatalf("%v", err)
		}
	})
}
