ENTRY = {
    "C16": dict(
        pkg="c16", level="exploration",
        technique="property-based allocation measurement: generated route sets and served requests, heap allocation count per request (runtime.MemStats, GC off, one P) must be zero in steady state",
        level_text="For generated route sets (deep backtracking, infix catch-alls, hostnames with and without port, many parameters, ignored trailing "
                   "slashes, custom methods) every request that the reference matcher says is served by a route is replayed after warm-up with a pre-built "
                   "request, a no-op writer and an empty handler; the number of heap allocations over 20 requests is read from runtime.MemStats with the GC "
                   "disabled. A violation is at least one allocation per request in three consecutive measurements. The same measurement is taken for the other "
                   "entry points that route a request to its route: Router.Lookup (with a writer and with nil) followed by Close, and Router.Reverse. Route sets "
                   "include size thresholds (fan-out 16-78, 8-40 nested prefixes, 8-32 parameters) and requests in which a wildcard captures '.' or '..'.",
        level_note="Sporadic allocations (fewer than one per request) are counted but not attributed to the router (other goroutines of the test binary may allocate); "
                   "requests answered by redirect/404/405 are out of scope of the property and excluded by construction.",
        level_more='Later additions: look-ups through a long-lived read-only transaction, one pattern under up to eleven verbs, and mixed-traffic rounds (all judged requests of a case one after the other, ServeHTTP and Reverse), so that per-request caches keyed on the previous request show.',
        rule="cases: (options, route set, served request); non-trivial = the serving route has a wildcard, or a hostname route / hostname fallback was involved, or the "
             "reference backtracked, or a trailing slash was ignored; distinct by (options, method, sorted patterns, host, path)",
        assumptions=["the handler and the writer used do not allocate", "steady state = after 5 warm-up requests on the same tree"],
        quick=[REPLAY, R("allocs", "^TestAllocs$", checks=12000, timeout=900)],
        thorough=[REPLAY, R("allocs", "^TestAllocs$", checks=20000, shards=16, timeout=3000)],
    ),
}
