// C16 — routing a matching request allocates nothing.
package c16

import (
	"encoding/json"
	"fmt"
	"net/http"
	"os"
	"runtime"
	"runtime/debug"
	"sort"
	"strings"
	"testing"

	"github.com/tigerwill90/fox"
	"pgregory.net/rapid"

	"verif/gen"
	"verif/ref"
	"verif/rt"
	"verif/stats"
)

func TestMain(m *testing.M) {
	stats.Init("C16")
	stats.RegisterReplay("alloc", func(raw json.RawMessage) error {
		var c Case
		if err := json.Unmarshal(raw, &c); err != nil {
			return err
		}
		debug.SetGCPercent(-1)
		defer debug.SetGCPercent(100)
		return checkCase(&c, false)
	})
	os.Exit(stats.Finish(m.Run()))
}

func TestReplay(t *testing.T) { stats.RunReplays(t) }

type Case struct {
	G      rt.Global      `json:"global"`
	Routes []rt.RouteSpec `json:"routes"`
	Reqs   []rt.Req       `json:"reqs"`
}

const runs = 20

// measure returns the number of heap allocations during `runs` calls of fn (GC is off, one P).
func measure(fn func()) uint64 {
	defer runtime.GOMAXPROCS(runtime.GOMAXPROCS(1))
	var a, b runtime.MemStats
	fn() // settle
	runtime.ReadMemStats(&a)
	for i := 0; i < runs; i++ {
		fn()
	}
	runtime.ReadMemStats(&b)
	return b.Mallocs - a.Mallocs
}

func checkCase(c *Case, count bool) error {
	var served int
	h := func(fox.Context) { served++ }
	var opts []fox.GlobalOption
	switch c.G.TS {
	case rt.TSIgnore:
		opts = append(opts, fox.WithIgnoreTrailingSlash(true))
	case rt.TSRedirect:
		opts = append(opts, fox.WithRedirectTrailingSlash(true))
	}
	f, err := fox.New(opts...)
	if err != nil {
		return nil
	}
	r := &rt.Router{F: f, G: c.G}
	for _, s := range c.Routes {
		if _, err := f.Handle(s.Method, s.Pattern, h, rt.RouteOptions(s.TS)...); err == nil {
			r.Routes = append(r.Routes, s)
		}
	}
	var mixed []rt.Req
	defer func() { _ = mixed }()
	for _, q := range c.Reqs {
		pats := r.Patterns(q.Method)
		host := ref.StripHost(q.Host)
		want, ok := ref.LookupAll(pats, host, q.Path)
		if !ok || want.Route < 0 {
			continue
		}
		if rt.ExcludedE(q.Path, pats) {
			continue // open finding E: which route serves such a request is not what this property is about
		}
		spec, _ := r.Spec(q.Method, pats[want.Route])
		if want.Tsr && (rt.EffectiveTS(c.G, spec) != rt.TSIgnore || q.Path == "/") {
			continue // redirect or 404: not "routing a request to a matching route"
		}
		req := rt.NewRequest(q)
		w := &rt.NopWriter{H: http.Header{}}
		for i := 0; i < 5; i++ {
			f.ServeHTTP(w, req)
		}
		served = 0
		f.ServeHTTP(w, req)
		if served != 1 {
			continue // judged by C01/C08, not here
		}
		mixed = append(mixed, q)
		fn := func() { f.ServeHTTP(w, req) }
		min := ^uint64(0)
		for attempt := 0; attempt < 3; attempt++ {
			if d := measure(fn); d < min {
				min = d
			}
			if min == 0 {
				break
			}
		}
		if count {
			stats.Eval()
			classify(c, pats, q, want)
		}
		if min >= runs {
			return fmt.Errorf("options %+v routes(%s)=%q request host=%q path=%q served by %q (tsr=%v): %d heap allocations in %d requests in each of 3 measurements (after warm-up, GC off, allocation-free handler and writer)",
				c.G, q.Method, pats, q.Host, q.Path, pats[want.Route], want.Tsr, min, runs)
		}
		if min > 0 && count {
			stats.Excluded("sporadic allocations (fewer than one per request) - not attributed to the router")
		}
		// the other entry points that route a request to its route: Router.Lookup (with a writer, and with none when only the
		// route is wanted) followed by Close, and Router.Reverse
		fw := rt.Writer(w, req)
		// a long-lived read-only transaction is one more way to the same lookups (Txn.Lookup, Txn.Reverse; Iter.Reverse hands out a new sequence value per call and is not measured)
		rtx := f.Txn(false)
		for _, ep := range []struct {
			name string
			fn   func()
		}{
			{"Router.Lookup(w, r) + Close", func() {
				if _, cc, _ := f.Lookup(fw, req); cc != nil {
					cc.Close()
				}
			}},
			{"Router.Lookup(nil, r) + Close", func() {
				if _, cc, _ := f.Lookup(nil, req); cc != nil {
					cc.Close()
				}
			}},
			{"Router.Reverse", func() { f.Reverse(q.Method, q.Host, q.Path) }},
			{"Txn(read).Reverse", func() { rtx.Reverse(q.Method, q.Host, q.Path) }},
			{"Txn(read).Lookup(w, r) + Close", func() {
				if _, cc, _ := rtx.Lookup(fw, req); cc != nil {
					cc.Close()
				}
			}},
		} {
			for i := 0; i < 5; i++ {
				ep.fn()
			}
			min := ^uint64(0)
			for attempt := 0; attempt < 3 && min != 0; attempt++ {
				if d := measure(ep.fn); d < min {
					min = d
				}
			}
			if count {
				stats.Eval()
				stats.Class("entry-point:" + ep.name)
			}
			if min >= runs {
				rtx.Abort()
				return fmt.Errorf("options %+v routes(%s)=%q request host=%q path=%q matching %q: %s makes %d heap allocations in %d calls in each of 3 measurements (after warm-up, GC off)",
					c.G, q.Method, pats, q.Host, q.Path, pats[want.Route], ep.name, min, runs)
			}
		}
		rtx.Abort()
	}
	// mixed traffic: the judged requests of the case one after the other, as a server sees them - methods, hosts and routes
	// alternate from one request to the next
	verbs := map[string]bool{}
	for _, q := range mixed {
		verbs[q.Method] = true
	}
	if len(mixed) >= 2 {
		w := &rt.NopWriter{H: http.Header{}}
		reqs := make([]*http.Request, len(mixed))
		for i, q := range mixed {
			reqs[i] = rt.NewRequest(q)
		}
		for _, ep := range []struct {
			name string
			fn   func()
		}{
			{"ServeHTTP", func() {
				for _, req := range reqs {
					f.ServeHTTP(w, req)
				}
			}},
			{"Router.Reverse", func() {
				for _, q := range mixed {
					f.Reverse(q.Method, q.Host, q.Path)
				}
			}},
		} {
			for i := 0; i < 3; i++ {
				ep.fn()
			}
			min := ^uint64(0)
			for attempt := 0; attempt < 3 && min != 0; attempt++ {
				if d := measure(ep.fn); d < min {
					min = d
				}
			}
			if count {
				stats.Eval()
				stats.Class("mixed-traffic:" + ep.name)
				if len(verbs) >= 2 {
					stats.Class("mixed-traffic:requests-of-several-methods-alternating")
				}
			}
			if min >= runs {
				return fmt.Errorf("options %+v routes=%v: %s for the requests %+v one after the other, each of which is served by a matching route without allocating when repeated on its own: %d heap allocations in %d rounds in each of 3 measurements (after warm-up, GC off)",
					c.G, r.Routes, ep.name, mixed, min, runs)
			}
		}
	}
	return nil
}

func classify(c *Case, pats []string, q rt.Req, want ref.Result) {
	wp := pats[want.Route]
	nt := false
	ws := ref.Wildcards(wp)
	if len(ws) > 0 {
		nt = true
		stats.Class("served-by:wildcard-route")
		for _, w := range ws {
			if w.CatchAll && w.End != len(wp) {
				stats.Class("served-by:infix-catch-all")
			}
		}
		if len(ws) >= 3 {
			stats.Class("served-by:>=3-params")
		}
	} else {
		stats.Class("served-by:static-route")
	}
	if want.HostMode {
		nt = true
		stats.Class("hostname-route")
		if strings.Contains(q.Host, ":") {
			stats.Class("host-with-port")
		}
	}
	if want.HostFallback {
		nt = true
		stats.Class("hostname-fallback")
	}
	if want.Backtracks > 0 {
		nt = true
		stats.Class("backtracked")
	}
	if want.Tsr {
		nt = true
		stats.Class("ignored-trailing-slash")
	}
	if nt {
		sp := append([]string(nil), pats...)
		sort.Strings(sp)
		stats.NonTrivial(fmt.Sprintf("%+v|%s|%s|%s|%s", c.G, q.Method, strings.Join(sp, " "), q.Host, q.Path))
	}
}

func TestAllocs(t *testing.T) {
	debug.SetGCPercent(-1)
	defer debug.SetGCPercent(100)
	n := 0
	rapid.Check(t, func(t *rapid.T) {
		if n++; n%300 == 0 {
			runtime.GC() // between cases only: keeps memory bounded while GC is off during measurements
		}
		c := &Case{}
		c.G.TS = gen.Pick(t, []int{rt.TSNone, rt.TSIgnore, rt.TSIgnore, rt.TSRedirect}, "globalTS")
		nr := gen.IntR(t, 1, 12, "nroutes")
		hostW := gen.Pick(t, []int{2, 2, 1000}, "hostweight")
		var pool []string
		for i := 0; i < nr; i++ {
			p := gen.Pattern(t, pool, hostW, false)
			pool = append(pool, p)
			c.Routes = append(c.Routes, rt.RouteSpec{Method: gen.Pick(t, []string{"GET", "GET", "GET", "FOO", "BAR"}, "method"), Pattern: p, TS: gen.Pick(t, []int{0, 0, rt.TSIgnore}, "ts")})
		}
		// a deep parametric route forces many params / backtracking
		if gen.Chance(t, 1, 4, "deep") {
			c.Routes = append(c.Routes, rt.RouteSpec{Method: "GET", Pattern: "/{p0}/{p1}/{p2}/{p3}/{p4}/{p5}/x"}, rt.RouteSpec{Method: "GET", Pattern: "/{p0}/{p1}/{p2}/{p3}/{p4}/*{c5}"})
		}
		// size thresholds: a node with many children (the child search changes strategy with the fan-out), a chain of nested
		// prefixes (tree depth), a route with many parameters
		switch gen.U(t, 8, "shape") {
		case 0, 1:
			alphabet := "abcdefghijklmnopqrstuvwxyzABCDEFGHIJKLMNOPQRSTUVWXYZ0123456789-_.~!$&'()+,;=:@"
			k := gen.Pick(t, []int{16, 31, 32, 33, 34, 49, 50, 51, 64, 78}, "fanout")
			base := gen.Pick(t, []string{"/", "/f/", "/f/a", "fan.example.com/"}, "fanbase")
			for i := 0; i < k; i++ {
				tail := gen.Pick(t, []string{"", "x", "/y", "/{p1}", "/*{c1}"}, "tail")
				c.Routes = append(c.Routes, rt.RouteSpec{Method: "GET", Pattern: base + alphabet[i:i+1] + tail})
			}
			if gen.Chance(t, 1, 2, "fanwild") {
				c.Routes = append(c.Routes, rt.RouteSpec{Method: "GET", Pattern: base + "{pw}/w"}, rt.RouteSpec{Method: "GET", Pattern: base + "*{cw}"})
			}
			stats.Class(fmt.Sprintf("shape:fan-out-%d", k))
		case 2:
			d := gen.Pick(t, []int{8, 24, 25, 26, 40}, "depth")
			for i := 1; i <= d; i++ {
				c.Routes = append(c.Routes, rt.RouteSpec{Method: "GET", Pattern: "/n/" + strings.Repeat("z", i)})
			}
			c.Routes = append(c.Routes, rt.RouteSpec{Method: "GET", Pattern: "/n/" + strings.Repeat("z", d) + "/{p}/*{c}"})
			stats.Class(fmt.Sprintf("shape:nested-prefixes-%d", d))
		case 3:
			np := gen.Pick(t, []int{8, 15, 16, 17, 32}, "nparams")
			var sb strings.Builder
			for i := 0; i < np; i++ {
				fmt.Fprintf(&sb, "/{m%d}", i)
			}
			c.Routes = append(c.Routes, rt.RouteSpec{Method: "GET", Pattern: "/m" + sb.String()}, rt.RouteSpec{Method: "GET", Pattern: "/m" + sb.String() + "/"})
			stats.Class(fmt.Sprintf("shape:many-params-%d", np))
		}
		nreq := 4
		if gen.Chance(t, 1, 6, "verbs") {
			// the same and different patterns under several uncommon verbs, a request for each
			for i, m := range []string{"FOO", "BAR", "PATCH", "HEAD"}[:gen.IntR(t, 2, 4, "nverbs")] {
				p := gen.Pick(t, []string{"/v/{p}", "/v/s", "/v/*{c}", fmt.Sprintf("/v%d/{p}", i)}, "vpat")
				c.Routes = append(c.Routes, rt.RouteSpec{Method: m, Pattern: p})
				c.Reqs = append(c.Reqs, rt.Req{Method: m, Path: strings.NewReplacer("{p}", "x", "*{c}", "a/b").Replace(p)})
			}
			if gen.Chance(t, 1, 2, "manyverbs") {
				// one pattern under many verbs
				for _, m := range []string{"GET", "HEAD", "POST", "PUT", "PATCH", "DELETE", "CONNECT", "OPTIONS", "TRACE", "FOO", "BAR"}[:gen.IntR(t, 7, 11, "nmany")] {
					c.Routes = append(c.Routes, rt.RouteSpec{Method: m, Pattern: "/vv/{p}"})
				}
				c.Reqs = append(c.Reqs, rt.Req{Method: "GET", Path: "/vv/x"})
			}
			nreq = 2
			stats.Class("shape:several-uncommon-verbs")
		}
		for i := 0; i < nreq; i++ {
			src := gen.Pick(t, c.Routes, "src")
			if !ref.ValidPattern(src.Pattern, 1<<16, 1<<16) {
				continue
			}
			host, path := gen.Instantiate(t, src.Pattern)
			if gen.Chance(t, 1, 2, "mut") {
				path = gen.MutatePath(t, path)
			}
			if gen.Chance(t, 1, 6, "dotseg") {
				// a path that is not in its shortest form: a wildcard captures "." or ".." like any other value
				segs := strings.Split(path, "/")
				if k := gen.IntR(t, 1, max(len(segs)-1, 1), "dotat"); k < len(segs) && segs[k] != "" {
					segs[k] = gen.Pick(t, []string{".", ".."}, "dot")
					path = strings.Join(segs, "/")
				}
				if gen.Chance(t, 1, 2, "dotslash") {
					path = strings.TrimSuffix(path, "/")
					if !strings.HasSuffix(path, "/") && gen.Chance(t, 1, 2, "add") {
						path += "/"
					}
				}
				stats.Class("request:dot-segment")
			}
			escaped := false
			if gen.Chance(t, 1, 6, "escaped") {
				// an escaped slash inside a segment: the request reaches the router with URL.RawPath set
				segs := strings.Split(path, "/")
				if k := gen.IntR(t, 1, max(len(segs)-1, 1), "escat"); k < len(segs) && segs[k] != "" {
					segs[k] = gen.Pick(t, []string{"a%2Fb", "x%2Fa", "%41b"}, "escval")
					path, escaped = strings.Join(segs, "/"), true
					stats.Class("request:escaped-path")
				}
			}
			if gen.Chance(t, 1, 8, "v6host") {
				// an IPv6 literal on the default port is a valid Host header without a port to strip
				host = gen.Pick(t, []string{"[::1]", "[2001:db8::1]"}, "v6")
				stats.Class("request:ipv6-literal-host-without-port")
			}
			if host != "" && host[0] != '[' && gen.Chance(t, 1, 3, "port") {
				host += gen.Pick(t, []string{":8080", ".", ".:443"}, "suffix")
			}
			if strings.Contains(path, "//") {
				continue
			}
			c.Reqs = append(c.Reqs, rt.Req{Method: src.Method, Host: host, Path: path, Escaped: escaped})
		}
		defer stats.Guard("alloc", func() any { return c })()
		stats.Sample(c)
		if err := checkCase(c, true); err != nil {
			stats.Fail("alloc", c, "%v", err)
			t.Fatalf("%v", err)
		}
	})
}
