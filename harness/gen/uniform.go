package gen

import (
	"math/bits"

	"pgregory.net/rapid"
)

// rapid's integer generators favour small magnitudes (about 40% of IntRange(0,99)
// draws land in 0..9), which is good for shrinking and bad for weighted choices.
// The helpers below draw uniformly from fair bits; they still shrink towards 0,
// i.e. towards the first alternative.

// U draws a uniform integer in [0, n).
func U(t *rapid.T, n int, label string) int {
	if n <= 1 {
		return 0
	}
	w := bits.Len(uint(n - 1))
	v := 0
	for i := 0; i < w; i++ {
		v <<= 1
		if rapid.Bool().Draw(t, label) {
			v |= 1
		}
	}
	// two extra bits keep the modulo bias below a few percent
	for i := 0; i < 2; i++ {
		v <<= 1
		if rapid.Bool().Draw(t, label) {
			v |= 1
		}
	}
	return v % n
}

// IntR draws a uniform integer in [lo, hi].
func IntR(t *rapid.T, lo, hi int, label string) int { return lo + U(t, hi-lo+1, label) }

// Pick draws a uniform element.
func Pick[T any](t *rapid.T, xs []T, label string) T { return xs[U(t, len(xs), label)] }

// Chance is true with probability num/den.
func Chance(t *rapid.T, num, den int, label string) bool { return U(t, den, label) < num }
