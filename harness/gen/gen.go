// Package gen holds the rapid generators shared by the routing checks:
// patterns, route sets that share radix nodes, requests derived from them.
package gen

import (
	"fmt"
	"strings"

	"pgregory.net/rapid"
)

// Statics is a deliberately colliding pool of static segments.
// "$b", "!" and "+a" start with bytes that sort before '*' ('!', '$') or between '*' and '/' ('+'): edge order around wildcard children.
var Statics = []string{"a", "b", "ab", "abc", "a.b", "x", "foo", "foobar", "$b", "!", "+a", "a}", "}x"}

// Values is the pool wildcard values are drawn from; it overlaps Statics so that
// static, parameter and catch-all alternatives compete for the same requests.
// No value starts with '*' or '{' (open finding E, see known_findings.json) or '/'.
var Values = []string{"a", "b", "ab", "abc", "x", "foo", "zz", "a.b", "foobar", "b:c", "a*", "a{b}", "Ab", "a-b"}

var prefixes = []string{"a", "b", "ab", ":"}

// Seg draws one path segment: static, parameter or catch-all, optionally with a
// static in-segment prefix. Wildcards are named after their depth so that most
// generated sets are conflict-free.
func Seg(t *rapid.T, depth int) string {
	k := IntR(t, 0, 9, "kind")
	pre := ""
	if IntR(t, 0, 3, "pre") == 0 {
		pre = Pick(t, prefixes, "prefix")
	}
	switch {
	case k <= 4:
		return Pick(t, Statics, "st")
	case k <= 7:
		return fmt.Sprintf("%s{p%d%s}", pre, depth, pre)
	default:
		return fmt.Sprintf("%s*{c%d%s}", pre, depth, pre)
	}
}

func isCatch(seg string) bool { return strings.Contains(seg, "*{") }

// Path draws a path pattern of 0..maxSegs segments.
func Path(t *rapid.T, maxSegs int) string {
	n := IntR(t, 0, maxSegs, "nseg")
	var sb strings.Builder
	prevCatch := false
	for i := 0; i < n; i++ {
		s := Seg(t, i)
		if prevCatch && strings.HasPrefix(s, "*") {
			s = "a"
		}
		prevCatch = isCatch(s)
		sb.WriteByte('/')
		sb.WriteString(s)
	}
	if n == 0 || IntR(t, 0, 3, "ts") == 0 {
		sb.WriteByte('/')
	}
	return sb.String()
}

// HostLabels is the static host label pool.
// "a-b" and "ab-a" continue "a" and "ab" with a hyphen, which sorts before '.' and '/': one registered hostname can be
// another one plus "-..." as well as plus ".label". "Ab" has an upper-case letter (labels are matched byte for byte).
var HostLabels = []string{"a", "b", "ab", "com", "example", "a-b", "ab-a", "Ab"}

// Host draws a hostname pattern ("" = path-only with probability pNone/ (pNone+1)).
func Host(t *rapid.T, noneWeight int) string {
	if IntR(t, 0, noneWeight, "hashost") != 0 {
		return ""
	}
	n := IntR(t, 1, 3, "nlab")
	var labs []string
	for i := 0; i < n; i++ {
		switch IntR(t, 0, 3, "lk") {
		case 0:
			labs = append(labs, fmt.Sprintf("{h%d}", i))
		case 1:
			labs = append(labs, fmt.Sprintf("a{g%d}", i))
		default:
			labs = append(labs, Pick(t, HostLabels, "lab"))
		}
	}
	return strings.Join(labs, ".")
}

// Pattern draws a new pattern; with probability 0.6 it extends a prefix of a
// pattern already in pool (cut at a segment boundary, or at an arbitrary byte
// when byteCut is set), which is what makes routes share and split radix nodes.
func Pattern(t *rapid.T, pool []string, hostNoneWeight int, byteCut bool) string {
	if len(pool) > 0 && IntR(t, 0, 9, "extend") < 6 {
		base := Pick(t, pool, "base")
		if byteCut {
			cut := IntR(t, 0, len(base), "cut")
			tail := strings.TrimPrefix(Path(t, 3), "/")
			return base[:cut] + tail
		}
		he := strings.IndexByte(base, '/')
		if he >= 0 {
			segs := strings.Split(strings.TrimSuffix(base[he+1:], "/"), "/")
			if len(segs) == 1 && segs[0] == "" {
				segs = nil
			}
			keep := IntR(t, 0, len(segs), "keep")
			var sb strings.Builder
			sb.WriteString(base[:he])
			prevCatch := false
			for k := 0; k < keep; k++ {
				sb.WriteByte('/')
				sb.WriteString(segs[k])
				prevCatch = isCatch(segs[k])
			}
			extra := IntR(t, 0, 3, "extra")
			for k := 0; k < extra; k++ {
				s := Seg(t, keep+k)
				if prevCatch && strings.HasPrefix(s, "*") {
					s = "a"
				}
				prevCatch = isCatch(s)
				sb.WriteByte('/')
				sb.WriteString(s)
			}
			p := sb.String()
			if he == len(p) {
				p += "/"
			}
			return p
		}
	}
	return Host(t, hostNoneWeight) + Path(t, 4)
}

// Rename turns wildcard names into different ones at the same position, which
// produces registration conflicts on purpose.
func Rename(p string) string {
	return strings.NewReplacer("{p", "{q", "{c", "{d", "{h", "{k", "{g", "{j").Replace(p)
}

// Instantiate substitutes generated values for the wildcards of a pattern and
// returns the request host and path.
func Instantiate(t *rapid.T, pat string) (host, path string) {
	var sb strings.Builder
	hostEnd := strings.IndexByte(pat, '/')
	for i := 0; i < len(pat); {
		switch {
		case pat[i] == '{':
			e := i + strings.IndexByte(pat[i:], '}')
			v := Pick(t, Values, "pv")
			if i < hostEnd {
				v = strings.NewReplacer(".", "", "*", "s", "{", "b", "}", "b", ":", "c").Replace(v)
			}
			sb.WriteString(v)
			i = e + 1
		case pat[i] == '*' && i+1 < len(pat) && pat[i+1] == '{':
			e := i + strings.IndexByte(pat[i:], '}')
			n := IntR(t, 1, 3, "cn")
			var vs []string
			for k := 0; k < n; k++ {
				vs = append(vs, Pick(t, Values, "cv"))
			}
			sb.WriteString(strings.Join(vs, "/"))
			i = e + 1
		default:
			sb.WriteByte(pat[i])
			i++
		}
	}
	s := sb.String()
	he := strings.IndexByte(s, '/')
	if he < 0 {
		return s, "/"
	}
	return s[:he], s[he:]
}

// MutatePath perturbs a request path: toggle the trailing slash, append or drop a
// segment, append a byte. The result never contains an empty segment.
func MutatePath(t *rapid.T, path string) string {
	out := path
	switch IntR(t, 0, 8, "mut") {
	case 0, 1:
		if strings.HasSuffix(path, "/") && len(path) > 1 {
			out = path[:len(path)-1]
		} else {
			out = path + "/"
		}
	case 2:
		out = strings.TrimSuffix(path, "/") + "/" + Pick(t, Values, "extra")
	case 3:
		if i := strings.LastIndexByte(strings.TrimSuffix(path, "/"), '/'); i > 0 {
			out = path[:i]
		}
	case 4:
		if !strings.HasSuffix(path, "/") {
			out = path + Pick(t, []string{"a", "b", "x"}, "tail")
		}
	}
	if strings.Contains(out, "//") || out == "" {
		return path
	}
	return out
}

// MutateHost perturbs a request host: exact, with port, trailing dot, extended on
// either side by labels or characters, truncated, unrelated, IP literals, empty.
func MutateHost(t *rapid.T, host string) string {
	switch IntR(t, 0, 15, "hm") {
	case 0:
		return "zz.org"
	case 1:
		return host + ".evil.org"
	case 2:
		return "x" + host
	case 3:
		return host + "x"
	case 4:
		return "evil." + host
	case 5:
		if i := strings.IndexByte(host, '.'); i > 0 {
			return host[i+1:]
		}
	case 6:
		if i := strings.LastIndexByte(host, '.'); i > 0 {
			return host[:i]
		}
	case 7:
		if host != "" {
			return host + Pick(t, []string{":8080", ":8080", ":80", ":10443", ":65535", ":0"}, "port")
		}
	case 8:
		if host != "" {
			return host + "."
		}
	case 9:
		if host != "" {
			return host + ".:443"
		}
	case 10:
		// IP literals are hosts like any other: an IPv6 literal keeps its brackets when it has no port (what a client sends
		// for the default port) and a {param} label captures it whole, as it has no dot
		return Pick(t, []string{"127.0.0.1", "127.0.0.1:80", "[::1]:8080", "10.1.2.3", "[::1]", "[::1]", "[2001:db8::1]"}, "ip")
	case 11:
		return ""
	case 12:
		if len(host) > 1 {
			return host[:len(host)-1]
		}
	case 14:
		// not a host:port and not an IPv6 literal either: nothing is stripped from these, so they equal no registered hostname
		if host != "" {
			return Pick(t, []string{host + ":8080:80", "[" + host + "]", "[" + host + "]:80"}, "oddhost")
		}
	case 13:
		// exactly one trailing dot is dropped, once: a second one stays and makes the last label empty
		if host != "" {
			return host + Pick(t, []string{"..", "..:8080"}, "dots")
		}
	}
	return host
}

// Competition draws a family of patterns that compete for the same requests at different priorities: a static base
// path, variants of it with one or two segments replaced by a parameter, a prefixed parameter or a catch-all, each
// with or without the final slash, and "splitter" siblings that continue a pattern's last segment (or hang a child
// under it) so that the final '/' of a competitor sits in a radix node of its own. It returns the patterns (the caller
// registers what the router accepts) and request paths: the base and the variants instantiated with the base's own
// segments, with and without the trailing slash.
func Competition(t *rapid.T) (pats, paths []string) {
	k := IntR(t, 1, 4, "csegs")
	segs := make([]string, k)
	for i := range segs {
		segs[i] = Pick(t, []string{"a", "ab", "b", "foo", "bar", "x"}, "cseg")
	}
	join := func(s []string, slash bool) string {
		p := "/" + strings.Join(s, "/")
		if slash {
			p += "/"
		}
		return p
	}
	baseSlash := Chance(t, 1, 2, "cslash")
	seen := map[string]bool{}
	add := func(p string) {
		if !seen[p] {
			seen[p] = true
			pats = append(pats, p)
		}
	}
	splitter := func(p string) {
		if !Chance(t, 1, 2, "csplit") {
			return
		}
		add(strings.TrimSuffix(p, "/") + Pick(t, []string{"x", "baz", "/x", "/{q}", "b/"}, "csuffix"))
	}
	if Chance(t, 3, 4, "cbase") {
		add(join(segs, baseSlash))
		splitter(join(segs, baseSlash))
	}
	nv := IntR(t, 1, 4, "cvariants")
	for v := 0; v < nv; v++ {
		vs := append([]string(nil), segs...)
		catch := false
		for r := 0; r < IntR(t, 1, 2, "creplace"); r++ {
			i := IntR(t, 0, k-1, "cpos")
			switch kind := IntR(t, 0, 5, "ckind"); {
			case kind <= 2:
				vs[i] = fmt.Sprintf("{p%d}", i)
			case kind == 3:
				vs[i] = fmt.Sprintf("%s{q%d}", segs[i][:1], i)
			case !catch && kind == 4:
				vs[i] = fmt.Sprintf("*{c%d}", i)
				catch = true
			case !catch:
				vs[i] = fmt.Sprintf("%s*{d%d}", segs[i][:1], i)
				catch = true
			}
		}
		slash := baseSlash
		if Chance(t, 1, 4, "cvslash") {
			slash = !slash
		}
		add(join(vs, slash))
		splitter(join(vs, slash))
	}
	paths = append(paths, join(segs, !baseSlash), join(segs, baseSlash))
	if k > 1 {
		paths = append(paths, join(segs[:k-1], !baseSlash))
		alt := append([]string(nil), segs...)
		alt[IntR(t, 0, k-1, "caltpos")] = Pick(t, Values, "caltval")
		paths = append(paths, join(alt, !baseSlash), join(alt, baseSlash))
	}
	return pats, paths
}
