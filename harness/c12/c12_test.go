// C12 — a Context only ever shows the current request.
package c12

import (
	"bufio"
	"context"
	"encoding/json"
	"fmt"
	"hash/fnv"
	"io"
	"log/slog"
	"net"
	"net/http"
	"net/http/httptest"
	"os"
	"regexp"
	"runtime/debug"
	"strings"
	"sync"
	"testing"

	"github.com/tigerwill90/fox"
	"pgregory.net/rapid"

	"verif/gen"
	"verif/stats"
)

func TestMain(m *testing.M) {
	stats.Init("C12")
	stats.RegisterReplay("context-sequence", func(raw json.RawMessage) error {
		var c Case
		if err := json.Unmarshal(raw, &c); err != nil {
			return err
		}
		return checkCase(&c, "")
	})
	stats.RegisterReplay("context-concurrent", func(raw json.RawMessage) error {
		var c ConcCase
		if err := json.Unmarshal(raw, &c); err != nil {
			return err
		}
		for i := 0; i < 5; i++ {
			if err := checkConcurrent(&c); err != nil {
				return err
			}
		}
		return nil
	})
	os.Exit(stats.Finish(m.Run()))
}

func TestReplay(t *testing.T) { stats.RunReplays(t) }

// Step is one request of a sequence.
type Step struct {
	Kind      string `json:"kind"`                 // direct, host, catchall, ignore-add, ignore-remove, redirect, notfound, nomethod, options, lookup, lookup-tsr
	CloneWith bool   `json:"clone_with,omitempty"` // a middleware substitutes a CloneWith context
	Clone     string `json:"clone,omitempty"`      // "", "before" (before the handler writes), "after"
	NewTree   int    `json:"new_tree,omitempty"`   // >0: register a route (with that many params) first, so the tree and its pool are replaced
	DropTree  bool   `json:"drop_tree,omitempty"`  // delete a previously added extra route first
	// SameQuery: the request carries the fixed query string "s=same" instead of its token, so that consecutive requests have
	// byte-identical raw queries; every handler edits the url.Values it got from QueryParams, which are its request's own.
	SameQuery bool `json:"same_query,omitempty"`
	// NoQuery: the request target has no query string at all (the handlers still add their "mut" value to what QueryParams returns)
	NoQuery bool `json:"no_query,omitempty"`
	// Nested: before it answers, the handler looks another request (its own token) up through the router and closes the
	// context it got: 1 = a route with a hostname parameter, 2 = a static hostname with path parameters. Whatever the nested
	// lookup records belongs to the nested request.
	Nested int `json:"nested,omitempty"`
}

type Case struct {
	Steps []Step `json:"steps"`
}

var kinds = []string{"direct", "host", "catchall", "ignore-add", "ignore-remove", "redirect", "notfound", "nomethod", "options", "lookup", "lookup-tsr", "host-infix-tsr", "double-infix-tsr", "infix", "hijack", "infix-empty-seg", "double-infix-empty-seg", "nomethod-host", "infix-sib", "infix-sib", "infix-sib-miss", "infix-sib-miss", "host-static", "host-static", "redirect-helper", "redirect-helper", "wrapped", "wrapped", "panic-recovered", "panic-recovered"}

type expKey struct{}

// exp is what the handlers of one request must observe.
type exp struct {
	tok       string
	req       *http.Request
	pattern   string   // "" in special handlers
	params    []string // expected keys, each with value tok
	scope     fox.HandlerScope
	status    int
	size      int
	clone     string
	viaLookup bool
	sameQuery bool
	noQuery   bool
	nested    int
	// loose: a request with an empty path segment in the region an infix catch-all scans. Which handler answers it is C01's
	// business; here only the per-request data (request, query, headers, writer state) is judged, and what the request leaves
	// behind in the pools.
	loose bool
}

var tokRe = regexp.MustCompile(`t[0-9_]+x`)

type harness struct {
	f              *fox.Router
	mu             sync.Mutex
	errs           []string
	clones         []savedClone
	extra          []string
	cloneWithCount int
	wrapped        []savedCtx
}

// savedCtx is the request context a net/http handler adapted with fox.WrapF received: the parameters it carries are that
// request's, for as long as somebody holds on to it (a goroutine started by the handler, a timeout handler).
type savedCtx struct {
	ctx context.Context
	tok string
}

type savedClone struct {
	c       fox.Context
	e       *exp
	status  int
	size    int
	written bool
	when    string
}

func (h *harness) fail(format string, a ...any) {
	h.mu.Lock()
	if len(h.errs) < 5 {
		h.errs = append(h.errs, fmt.Sprintf(format, a...))
	}
	h.mu.Unlock()
}

// foreign reports a token in s that is not tok.
func foreign(s, tok string) string {
	for _, m := range tokRe.FindAllString(s, -1) {
		if m != tok {
			return m
		}
	}
	return ""
}

// remoteOf is the client address of the request carrying tok: every request comes from its own address.
func remoteOf(tok string) string {
	h := fnv.New32a()
	h.Write([]byte(tok))
	v := h.Sum32()
	return fmt.Sprintf("10.%d.%d.%d", byte(v>>16), byte(v>>8), byte(v))
}

// inspect checks every getter of c against the expectation carried by the request itself.
func (h *harness) inspect(where string, c fox.Context, entry bool) *exp {
	req := c.Request()
	if req == nil {
		h.fail("%s: Request() is nil", where)
		return nil
	}
	e, _ := req.Context().Value(expKey{}).(*exp)
	if e == nil {
		h.fail("%s: the context's request is not one of ours: %s", where, req.URL)
		return nil
	}
	pre := fmt.Sprintf("%s [request %s %s token %s]", where, req.Method, req.URL.Path, e.tok)
	if e.req != req {
		h.fail("%s: Request() is not the request that was passed in", pre)
	}
	if !e.loose {
		if got := c.Pattern(); got != e.pattern {
			h.fail("%s: Pattern() = %q, want %q", pre, got, e.pattern)
		}
		if (c.Route() == nil) != (e.pattern == "") || (c.Route() != nil && c.Route().Pattern() != e.pattern) {
			h.fail("%s: Route() = %v, want pattern %q", pre, c.Route(), e.pattern)
		}
		if got := c.Scope(); got != e.scope {
			h.fail("%s: Scope() = %d, want %d", pre, got, e.scope)
		}
	}
	var keys []string
	for p := range c.Params() {
		keys = append(keys, p.Key)
		if !strings.Contains(p.Value, e.tok) && !(e.loose && p.Value == "") {
			h.fail("%s: Params() yields %s=%q, which is not this request's value %q", pre, p.Key, p.Value, e.tok)
		} else if p.Value != e.tok && !e.loose {
			h.fail("%s: Params() yields %s=%q, which is not this request's value %q", pre, p.Key, p.Value, e.tok)
		}
	}
	if strings.Join(keys, ",") != strings.Join(e.params, ",") && !e.loose {
		h.fail("%s: Params() keys %v, want %v", pre, keys, e.params)
	}
	for _, k := range []string{"tok", "tok2"} {
		if e.loose {
			break
		}
		want := ""
		for _, p := range e.params {
			if p == k {
				want = e.tok
			}
		}
		if got := c.Param(k); got != want {
			h.fail("%s: Param(%q) = %q, want %q", pre, k, got, want)
		}
	}
	qtok := e.tok
	if e.noQuery {
		qtok = ""
	}
	if e.sameQuery {
		qtok = ""
		if got := c.QueryParam("s"); got != "same" {
			h.fail("%s: QueryParam(s) = %q, want %q", pre, got, "same")
		}
	}
	if got := c.QueryParam("q"); got != qtok {
		h.fail("%s: QueryParam(q) = %q, want %q", pre, got, qtok)
	}
	if got := c.QueryParams().Get("r"); got != qtok {
		h.fail("%s: QueryParams()[r] = %q, want %q", pre, got, qtok)
	}
	if entry {
		// no handler of this request has edited the values yet: "mut" can only be another request's edit
		if got := c.QueryParams()["mut"]; len(got) != 0 {
			h.fail("%s: QueryParams()[mut] = %q on entry: the request URL has no such key, an earlier request's handler had set it on its own values", pre, got)
		}
	}
	if got, want := c.RemoteIP().String(), remoteOf(e.tok); got != want {
		h.fail("%s: RemoteIP() = %s, the request came from %s", pre, got, want)
	}
	// the router-wide resolver reads the request's remote address: whatever ClientIP answers belongs to this request
	if ip, err := c.ClientIP(); err != nil || ip.String() != remoteOf(e.tok) {
		h.fail("%s: ClientIP() = %v, %v; the configured resolver gives %s for this request", pre, ip, err, remoteOf(e.tok))
	}
	if got := c.Header("X-Tok"); got != e.tok {
		h.fail("%s: Header(X-Tok) = %q, want %q", pre, got, e.tok)
	}
	if !strings.Contains(c.Path(), e.tok) || c.Method() != req.Method || c.Host() != req.Host {
		h.fail("%s: Path/Method/Host = %q %q %q", pre, c.Path(), c.Method(), c.Host())
	}
	for k, vs := range c.Writer().Header() {
		for _, v := range vs {
			if f := foreign(k+": "+v, e.tok); f != "" {
				h.fail("%s: response header %s: %s carries token %s of another request", pre, k, v, f)
			}
		}
	}
	if entry {
		w := c.Writer()
		if w.Status() != http.StatusOK || w.Size() != 0 || w.Written() {
			h.fail("%s: on entry the writer reports status=%d size=%d written=%v", pre, w.Status(), w.Size(), w.Written())
		}
		if v := w.Header().Get("X-Resp"); v != "" {
			h.fail("%s: on entry the response already has X-Resp=%q", pre, v)
		}
	}
	return e
}

func (h *harness) takeClone(c fox.Context, e *exp, when string) {
	if e.loose {
		return
	}
	cl := c.Clone()
	w := c.Writer()
	h.mu.Lock()
	h.clones = append(h.clones, savedClone{c: cl, e: e, status: w.Status(), size: w.Size(), written: w.Written(), when: when})
	h.mu.Unlock()
	// the handler goes on editing its own request in place (a header added for an upstream call, a path rewritten before
	// handing the request to a file server): the copy keeps what it was made with. The edits are undone straight away.
	if req := c.Request(); req != nil && req.URL != nil {
		oldTok, oldPath := req.Header.Get("X-Tok"), req.URL.Path
		req.Header.Set("X-Tok", "edited-after-the-clone")
		req.Header.Set("X-Added-Later", "1")
		req.URL.Path = "/edited/after/the/clone"
		if got := cl.Header("X-Tok"); got != oldTok {
			h.fail("clone taken %s the write [token %s]: after the handler edited its own request, the copy's Header(X-Tok) reads %q, it was made with %q", when, e.tok, got, oldTok)
		}
		if got := cl.Header("X-Added-Later"); got != "" {
			h.fail("clone taken %s the write [token %s]: a header the handler added to its own request afterwards shows in the copy: %q", when, e.tok, got)
		}
		if got := cl.Path(); got != oldPath {
			h.fail("clone taken %s the write [token %s]: after the handler rewrote its own request path, the copy's Path() reads %q, it was made with %q", when, e.tok, got, oldPath)
		}
		req.Header.Set("X-Tok", oldTok)
		req.Header.Del("X-Added-Later")
		req.URL.Path = oldPath
	}
}

// respond is the body of every handler we install.
func (h *harness) respond(where string) fox.HandlerFunc {
	return func(c fox.Context) {
		e := h.inspect(where, c, true)
		if e == nil {
			return
		}
		if e.nested > 0 {
			h.nestedLookup(e)
			h.inspect(where+" (after a nested Lookup of another request)", c, true)
		}
		if e.clone == "before" {
			h.takeClone(c, e, "before")
		}
		c.QueryParams().Set("mut", e.tok) // the values of this request are the handler's to edit
		c.SetHeader("X-Resp", e.tok)
		c.Writer().WriteHeader(e.status)
		if e.size%2 == 1 {
			_, _ = io.WriteString(c.Writer(), strings.Repeat("b", e.size))
		} else {
			_, _ = c.Writer().Write([]byte(strings.Repeat("b", e.size)))
		}
		if w := c.Writer(); w.Status() != e.status || w.Size() != e.size || !w.Written() {
			h.fail("%s [token %s]: after writing status=%d and %d bytes the writer reports status=%d size=%d written=%v", where, e.tok, e.status, e.size, w.Status(), w.Size(), w.Written())
		}
		if e.clone == "after" {
			h.takeClone(c, e, "after")
			// the handler goes on changing its response header (a trailer, a late header): the clone is a copy, not a view
			c.Writer().Header().Set("X-Late", "late-"+e.tok)
			c.Writer().Header().Set("X-Resp", "late-"+e.tok)
		}
		h.inspect(where+" (after writing)", c, false)
	}
}

// nestedLookup looks up a request carrying another token, as a handler may, and closes the context straight away.
func (h *harness) nestedLookup(e *exp) {
	tok := "t0_" + strings.TrimPrefix(e.tok, "t")
	host, path, want := tok+".example.com", "/h/"+tok, "{tok}.example.com/h/{tok2}"
	if e.nested == 2 {
		host, path, want = "static.example.com", "/s/"+tok+"/"+tok, "static.example.com/s/{tok}/{tok2}"
	}
	req := httptest.NewRequest("PATCH", "http://"+host+path, nil)
	rte, cc, _ := h.f.Lookup(fox.NewTestContextOnly(httptest.NewRecorder(), req).Writer(), req)
	if rte == nil || rte.Pattern() != want {
		h.fail("nested Lookup of PATCH %s%s inside the handler of token %s returned %v, want %q", host, path, e.tok, rte, want)
	}
	if cc != nil {
		for p := range cc.Params() {
			if p.Value != tok {
				h.fail("nested Lookup of PATCH %s%s: Params() yields %s=%q, want %q", host, path, p.Key, p.Value, tok)
			}
		}
		cc.Close()
	}
}

func newHarness() (*harness, error) {
	h := &harness{}
	mw := func(next fox.HandlerFunc) fox.HandlerFunc {
		return func(c fox.Context) {
			e := h.inspect("middleware", c, true)
			if e != nil && e.scope == fox.RedirectHandler && e.clone != "" {
				h.takeClone(c, e, "before")
			}
			if req := c.Request(); req != nil && req.Header.Get("X-Clonewith") != "" {
				cp := c.CloneWith(c.Writer(), c.Request())
				h.mu.Lock()
				h.cloneWithCount++
				h.mu.Unlock()
				next(cp)
				h.inspect("CloneWith context after the handler", cp, false)
				cp.Close()
			} else {
				next(c)
			}
			h.inspect("middleware after the handler", c, false)
		}
	}
	f, err := fox.New(
		fox.WithClientIPResolver(fox.ClientIPResolverFunc(func(c fox.Context) (*net.IPAddr, error) {
			host, _, err := net.SplitHostPort(c.Request().RemoteAddr)
			if err != nil {
				return nil, err
			}
			return &net.IPAddr{IP: net.ParseIP(host)}, nil
		})),
		fox.WithMiddleware(mw),
		fox.WithNoRouteHandler(h.respond("no-route handler")),
		fox.WithNoMethodHandler(h.respond("no-method handler")),
		fox.WithOptionsHandler(h.respond("options handler")),
	)
	if err != nil {
		return nil, err
	}
	h.f = f
	rh := h.respond("route handler")
	f.MustHandle("GET", "/p/{tok}/x/{tok2}", rh)
	f.MustHandle("PATCH", "{tok}.example.com/h/{tok2}", rh)
	// a static hostname with path parameters. (No path-only route under this method: the lookups that compute Allow run method
	// after method on one context, and a hostname-to-path fallback in a later method would wipe what an earlier one left behind.)
	f.MustHandle("PATCH", "static.example.com/s/{tok}/{tok2}", rh)
	f.MustHandle("GET", "/c/*{tok}", rh)
	f.MustHandle("GET", "/ts/{tok}/", rh, fox.WithIgnoreTrailingSlash(true))
	f.MustHandle("GET", "/tr/{tok}/y/{tok2}", rh, fox.WithIgnoreTrailingSlash(true))
	f.MustHandle("GET", "/rd/{tok}/", rh, fox.WithRedirectTrailingSlash(true))
	// trailing-slash matches whose infix catch-alls are evaluated on pooled sub-contexts
	f.MustHandle("PATCH", "{tok}.infix.example.com/d/*{tok2}/m/", rh, fox.WithIgnoreTrailingSlash(true))
	f.MustHandle("GET", "/dd/*{tok}/m/*{tok2}/end/", rh, fox.WithIgnoreTrailingSlash(true))
	f.MustHandle("GET", "/in/*{tok}/x/{tok2}", rh)
	// a handler that takes over the connection before anything was written (websocket-upgrade shape)
	f.MustHandle("GET", "/hj/{tok}", func(c fox.Context) {
		e := h.inspect("hijacking handler", c, true)
		if e == nil {
			return
		}
		conn, _, err := c.Writer().Hijack()
		if err != nil {
			h.fail("hijacking handler [token %s]: Hijack on a writer that supports it returned %v", e.tok, err)
			return
		}
		_ = conn.Close()
	})
	// a handler that panics below the Recovery middleware; the recovery function looks up another request (to report to that
	// tenant's sink, say) before it answers: the context it was given is still this request's
	f.MustHandle("GET", "/pn/{tok}", func(c fox.Context) {
		e := h.inspect("panicking handler", c, true)
		if e == nil {
			return
		}
		c.QueryParams().Set("mut", e.tok)
		panic("c12: handler of token " + e.tok + " fails")
	}, fox.WithMiddleware(fox.CustomRecoveryWithLogHandler(slog.NewTextHandler(io.Discard, nil), func(c fox.Context, _ any) {
		e := h.inspect("recovery function", c, false)
		if e == nil {
			return
		}
		h.nestedLookup(e)
		h.inspect("recovery function (after a nested Lookup of another request)", c, false)
		c.SetHeader("X-Resp", e.tok)
		c.Writer().WriteHeader(e.status)
		_, _ = c.Writer().Write([]byte(strings.Repeat("b", e.size)))
	})))
	// a handler that answers with Context.Redirect: whether that works depends on this request's writer alone
	f.MustHandle("GET", "/rh/{tok}", func(c fox.Context) {
		e := h.inspect("redirecting handler", c, true)
		if e == nil {
			return
		}
		if err := c.Redirect(http.StatusFound, "/to/"+e.tok); err != nil {
			h.fail("redirecting handler [token %s]: Redirect(302) on a writer nothing was written to returned %v", e.tok, err)
		}
		if w := c.Writer(); w.Status() != http.StatusFound || !w.Written() {
			h.fail("redirecting handler [token %s]: after Redirect(302) the writer reports status=%d written=%v", e.tok, w.Status(), w.Written())
		}
	})
	// a net/http handler behind fox.WrapF: it reads its parameters from the request context, and keeps that context
	f.MustHandle("GET", "/wr/{tok}/{tok2}", fox.WrapF(func(w http.ResponseWriter, r *http.Request) {
		e, _ := r.Context().Value(expKey{}).(*exp)
		if e == nil {
			h.fail("wrapped handler: the request is not one of ours: %s", r.URL)
			return
		}
		for _, p := range fox.ParamsFromContext(r.Context()) {
			if p.Value != e.tok {
				h.fail("wrapped handler [token %s]: ParamsFromContext yields %s=%q", e.tok, p.Key, p.Value)
			}
		}
		h.mu.Lock()
		h.wrapped = append(h.wrapped, savedCtx{r.Context(), e.tok})
		h.mu.Unlock()
		w.Header().Set("X-Resp", e.tok)
		w.WriteHeader(e.status)
		_, _ = w.Write([]byte(strings.Repeat("b", e.size)))
	}))
	f.MustHandle("POST", "/m/{tok}", rh)
	f.MustHandle("PUT", "/m/{tok}", rh)
	// an infix catch-all behind a static segment that competes with a parameter: a direct match through it leaves untried
	// alternatives behind on the contexts it used
	f.MustHandle("GET", "/u/{tok}/b/*{tok2}/end", rh)
	f.MustHandle("GET", "/u/{tok}/{tok2}", rh)
	// hostname routes of another method whose labels compete (static "api" versus a parameter): the lookups that compute the
	// Allow header of a 405 backtrack through them on the context the no-method handler then receives
	f.MustHandle("DELETE", "{tok}.api.nm.example.com/sync", rh)
	f.MustHandle("DELETE", "{tok}.{tok2}.nm.example.com/report/{tok3}", rh)
	return h, nil
}

// request builds the request and expectation of one step.
func buildStep(s Step, tok string, n int) (*http.Request, *exp) {
	e := &exp{tok: tok, scope: fox.RouteHandler, status: 200 + n%40, size: n % 6, clone: s.Clone, nested: s.Nested}
	method, host, path := "GET", "example.com", ""
	switch s.Kind {
	case "direct", "lookup":
		path, e.pattern, e.params = "/p/"+tok+"/x/"+tok, "/p/{tok}/x/{tok2}", []string{"tok", "tok2"}
	case "host":
		method = "PATCH"
		host, path, e.pattern, e.params = tok+".example.com", "/h/"+tok, "{tok}.example.com/h/{tok2}", []string{"tok", "tok2"}
	case "host-static":
		method = "PATCH"
		host, path, e.pattern, e.params = "static.example.com", "/s/"+tok+"/"+tok, "static.example.com/s/{tok}/{tok2}", []string{"tok", "tok2"}
	case "catchall":
		path, e.pattern, e.params = "/c/"+tok, "/c/*{tok}", []string{"tok"}
	case "ignore-add", "lookup-tsr":
		path, e.pattern, e.params = "/ts/"+tok, "/ts/{tok}/", []string{"tok"}
	case "ignore-remove":
		path, e.pattern, e.params = "/tr/"+tok+"/y/"+tok+"/", "/tr/{tok}/y/{tok2}", []string{"tok", "tok2"}
	case "host-infix-tsr":
		method = "PATCH"
		host, path, e.pattern, e.params = tok+".infix.example.com", "/d/"+tok+"/m", "{tok}.infix.example.com/d/*{tok2}/m/", []string{"tok", "tok2"}
	case "double-infix-tsr":
		path, e.pattern, e.params = "/dd/"+tok+"/m/"+tok+"/end", "/dd/*{tok}/m/*{tok2}/end/", []string{"tok", "tok2"}
	case "infix":
		path, e.pattern, e.params = "/in/"+tok+"/x/"+tok, "/in/*{tok}/x/{tok2}", []string{"tok", "tok2"}
	case "wrapped":
		path, e.pattern, e.params = "/wr/"+tok+"/"+tok, "/wr/{tok}/{tok2}", []string{"tok", "tok2"}
	case "panic-recovered":
		path, e.pattern, e.params = "/pn/"+tok, "/pn/{tok}", []string{"tok"}
	case "redirect-helper":
		path, e.pattern, e.params, e.status, e.size = "/rh/"+tok, "/rh/{tok}", []string{"tok"}, http.StatusFound, -1
	case "hijack":
		path, e.pattern, e.params, e.size = "/hj/"+tok, "/hj/{tok}", []string{"tok"}, -2
	case "infix-empty-seg":
		path, e.loose = "/in/"+tok+"//x/"+tok, true
	case "double-infix-empty-seg":
		path, e.loose = "/dd/"+tok+"//m/"+tok+"//end", true
	case "redirect":
		path, e.scope, e.status, e.size = "/rd/"+tok, fox.RedirectHandler, http.StatusMovedPermanently, -1
	case "notfound":
		path, e.scope = "/none/"+tok, fox.NoRouteHandler
	case "nomethod":
		path, e.scope = "/m/"+tok, fox.NoMethodHandler
	case "infix-sib":
		path, e.pattern, e.params = "/u/"+tok+"/b/"+tok+"/end", "/u/{tok}/b/*{tok2}/end", []string{"tok", "tok2"}
	case "infix-sib-miss":
		path, e.scope = "/u/"+tok+"/b/"+tok+"/2222222"+tok, fox.NoRouteHandler
	case "nomethod-host":
		host, path, e.scope = tok+".api.nm.example.com", "/report/"+tok, fox.NoMethodHandler
	case "options":
		method, path, e.scope = "OPTIONS", "/p/"+tok+"/x/"+tok, fox.OptionsHandler
	}
	query := "?q=" + tok + "&r=" + tok
	if s.SameQuery {
		query, e.sameQuery = "?s=same", true
	}
	if s.NoQuery {
		query, e.sameQuery, e.noQuery = "", false, true
	}
	req := httptest.NewRequest(method, "http://"+host+path+query, nil)
	req.Header.Set("X-Tok", tok)
	req.RemoteAddr = remoteOf(tok) + ":4711"
	if s.CloneWith {
		req.Header.Set("X-Clonewith", "1")
	}
	e.viaLookup = s.Kind == "lookup" || s.Kind == "lookup-tsr"
	req = req.WithContext(context.WithValue(req.Context(), expKey{}, e))
	e.req = req
	return req, e
}

func (h *harness) run(s Step, tok string, n int) {
	if s.DropTree && len(h.extra) > 0 {
		p := h.extra[len(h.extra)-1]
		h.extra = h.extra[:len(h.extra)-1]
		_, _ = h.f.Delete("GET", p)
	}
	if s.NewTree > 0 {
		p := fmt.Sprintf("/extra/%s", tok)
		for i := 0; i < s.NewTree; i++ {
			p += fmt.Sprintf("/{e%d}", i)
		}
		if _, err := h.f.Handle("GET", p, func(fox.Context) {}); err == nil {
			h.extra = append(h.extra, p)
		}
	}
	req, e := buildStep(s, tok, n)
	rec := httptest.NewRecorder()
	if e.viaLookup {
		fw := fox.NewTestContextOnly(rec, req).Writer()
		rte, cc, tsr := h.f.Lookup(fw, req)
		if rte == nil || rte.Pattern() != e.pattern || tsr != (s.Kind == "lookup-tsr") {
			h.fail("Lookup for token %s returned route %v tsr=%v, want %q", tok, rte, tsr, e.pattern)
			if cc != nil {
				cc.Close()
			}
			return
		}
		if cc.Writer() != fw {
			h.fail("Lookup context for token %s does not expose the writer that was supplied", tok)
		}
		h.inspect("context returned by Lookup", cc, true)
		cc.QueryParams().Set("mut", tok)
		if e.clone != "" {
			fw.Header().Set("X-Resp", tok)
			h.takeClone(cc, e, "before")
		}
		cc.Close()
		return
	}
	if e.size == -2 {
		a, b := net.Pipe()
		h.f.ServeHTTP(&hijackable{ResponseRecorder: rec, conn: a}, req)
		_ = a.Close()
		_ = b.Close()
		return
	}
	if n%4 < 2 {
		// a server-side writer that offers nothing beyond the three methods of http.ResponseWriter
		h.f.ServeHTTP(plainW{rec}, req)
	} else {
		h.f.ServeHTTP(rec, req)
	}
	res := rec.Result()
	if e.size >= 0 {
		if rec.Code != e.status || rec.Body.Len() != e.size || res.Header.Get("X-Resp") != tok {
			h.fail("request with token %s (%s): response status=%d body=%d bytes X-Resp=%q, the handler sent status=%d, %d bytes, X-Resp=%q", tok, s.Kind, rec.Code, rec.Body.Len(), res.Header.Get("X-Resp"), e.status, e.size, tok)
		}
	} else if rec.Code != e.status || !strings.Contains(res.Header.Get("Location"), tok) {
		h.fail("request with token %s (%s): status=%d Location=%q", tok, s.Kind, rec.Code, res.Header.Get("Location"))
	}
	for k, vs := range res.Header {
		for _, v := range vs {
			if f := foreign(v, tok); f != "" {
				h.fail("response of token %s carries header %s: %s with token %s of another request", tok, k, v, f)
			}
		}
	}
}

// plainW hides every optional interface of the writer it wraps.
type plainW struct{ w http.ResponseWriter }

func (p plainW) Header() http.Header         { return p.w.Header() }
func (p plainW) Write(b []byte) (int, error) { return p.w.Write(b) }
func (p plainW) WriteHeader(code int)        { p.w.WriteHeader(code) }

// hijackable is a recorder whose connection can be taken over.
type hijackable struct {
	*httptest.ResponseRecorder
	conn net.Conn
}

func (w *hijackable) Hijack() (net.Conn, *bufio.ReadWriter, error) {
	return w.conn, bufio.NewReadWriter(bufio.NewReader(w.conn), bufio.NewWriter(w.conn)), nil
}

// recheckClones inspects every stored clone after all later requests have run.
func (h *harness) recheckClones() {
	for _, sw := range h.wrapped {
		ps := fox.ParamsFromContext(sw.ctx)
		if len(ps) != 2 {
			h.fail("request context kept by the wrapped handler of token %s, read after later requests: ParamsFromContext yields %v, want tok and tok2", sw.tok, ps)
		}
		for _, p := range ps {
			if p.Value != sw.tok {
				h.fail("request context kept by the wrapped handler of token %s, read after later requests: ParamsFromContext yields %s=%q", sw.tok, p.Key, p.Value)
			}
		}
	}
	for _, sc := range h.clones {
		cl, e := sc.c, sc.e
		pre := fmt.Sprintf("Clone taken %s writing in request with token %s (%s), inspected after later requests", sc.when, e.tok, e.pattern)
		func() {
			defer func() {
				if r := recover(); r != nil {
					h.fail("%s: panic: %v", pre, r)
				}
			}()
			if cl.Request() == nil || cl.Request() == e.req {
				h.fail("%s: Request() is not a copy", pre)
				return
			}
			if !strings.Contains(cl.Request().URL.Path, e.tok) || (cl.QueryParam("q") != e.tok && !e.sameQuery && !e.noQuery) || (e.sameQuery && cl.QueryParam("s") != "same") || cl.Header("X-Tok") != e.tok {
				h.fail("%s: request data path=%q q=%q X-Tok=%q", pre, cl.Request().URL.Path, cl.QueryParam("q"), cl.Header("X-Tok"))
			}
			if got, want := cl.RemoteIP().String(), remoteOf(e.tok); got != want {
				h.fail("%s: RemoteIP() = %s, the request came from %s", pre, got, want)
			}
			if cl.Pattern() != e.pattern || cl.Scope() != e.scope {
				h.fail("%s: Pattern()=%q Scope()=%d, want %q %d", pre, cl.Pattern(), cl.Scope(), e.pattern, e.scope)
			}
			var keys []string
			for p := range cl.Params() {
				keys = append(keys, p.Key)
				if p.Value != e.tok {
					h.fail("%s: Params() yields %s=%q", pre, p.Key, p.Value)
				}
			}
			if strings.Join(keys, ",") != strings.Join(e.params, ",") {
				h.fail("%s: Params() keys %v, want %v", pre, keys, e.params)
			}
			w := cl.Writer()
			if w.Status() != sc.status || w.Size() != sc.size || w.Written() != sc.written {
				h.fail("%s: writer state status=%d size=%d written=%v, at clone time it was status=%d size=%d written=%v", pre, w.Status(), w.Size(), w.Written(), sc.status, sc.size, sc.written)
			}
			for k, vs := range w.Header() {
				for _, v := range vs {
					if f := foreign(v, e.tok); f != "" {
						h.fail("%s: response header %s: %s carries token %s of another request", pre, k, v, f)
					}
				}
			}
			if sc.when == "after" && w.Header().Get("X-Late") != "" {
				h.fail("%s: response header X-Late=%q appeared in the clone although the handler set it after cloning", pre, w.Header().Get("X-Late"))
			}
			if (sc.when == "after" || e.viaLookup) && w.Header().Get("X-Resp") != e.tok {
				h.fail("%s: response header X-Resp=%q, the handler had set %q before cloning", pre, w.Header().Get("X-Resp"), e.tok)
			}
		}()
	}
}

func checkCase(c *Case, prefix string) error {
	h, err := newHarness()
	if err != nil {
		return nil
	}
	for i, s := range c.Steps {
		h.run(s, fmt.Sprintf("t%s%dx", prefix, i+1), i)
	}
	h.recheckClones()
	if len(h.errs) > 0 {
		return fmt.Errorf("%d step sequence: %s", len(c.Steps), strings.Join(h.errs, "\n  also: "))
	}
	return nil
}

func genStep(t *rapid.T) Step {
	s := Step{Kind: gen.Pick(t, kinds, "kind")}
	s.CloneWith = gen.Chance(t, 1, 4, "clonewith")
	s.SameQuery = gen.Chance(t, 1, 3, "samequery")
	s.NoQuery = gen.Chance(t, 1, 4, "noquery")
	if gen.Chance(t, 1, 3, "clone") {
		s.Clone = gen.Pick(t, []string{"before", "after"}, "when")
	}
	if gen.Chance(t, 1, 4, "nested") {
		s.Nested = gen.IntR(t, 1, 2, "nestedkind")
	}
	if gen.Chance(t, 1, 5, "newtree") {
		s.NewTree = gen.IntR(t, 1, 5, "nparams")
	} else if gen.Chance(t, 1, 8, "droptree") {
		s.DropTree = true
	}
	return s
}

func TestSequences(t *testing.T) {
	rapid.Check(t, func(t *rapid.T) {
		c := &Case{}
		n := gen.IntR(t, 2, 30, "nsteps")
		for i := 0; i < n; i++ {
			c.Steps = append(c.Steps, genStep(t))
		}
		defer stats.Guard("context-sequence", func() any { return c })()
		stats.EvalN(len(c.Steps))
		stats.Sample(c)
		// non-trivial: a context is reused after a request of a different shape (same tree => same pool)
		shapes := 0
		for i := 1; i < len(c.Steps); i++ {
			if c.Steps[i].Kind != c.Steps[i-1].Kind && c.Steps[i].NewTree == 0 && !c.Steps[i].DropTree {
				shapes++
			}
			stats.Class("step:" + c.Steps[i].Kind)
			if c.Steps[i].Clone != "" {
				stats.Class("clone-taken")
			}
			if c.Steps[i].CloneWith {
				stats.Class("clone-with")
			}
			if c.Steps[i].Nested > 0 {
				stats.Class("nested-lookup-in-handler")
			}
			if c.Steps[i].NewTree > 0 || c.Steps[i].DropTree {
				stats.Class("tree-replaced-before-request")
			}
		}
		if shapes > 0 {
			stats.NonTrivial(fmt.Sprintf("%v", c.Steps))
		}
		if err := checkCase(c, ""); err != nil {
			stats.Fail("context-sequence", c, "%v", err)
			t.Fatalf("%v", err)
		}
	})
}

// ---- concurrent mixes (run with -race) ----

type ConcCase struct {
	Workers [][]Step `json:"workers"`
	Writes  int      `json:"writes"`
}

func checkConcurrent(c *ConcCase) error {
	h, err := newHarness()
	if err != nil {
		return nil
	}
	var wg sync.WaitGroup
	for g, steps := range c.Workers {
		wg.Add(1)
		go func(g int, steps []Step) {
			defer wg.Done()
			defer func() {
				if r := recover(); r != nil {
					h.fail("worker %d: panic: %v\n%s", g, r, debug.Stack())
				}
			}()
			for i, s := range steps {
				s.NewTree, s.DropTree = 0, false // the tree is replaced by the writer goroutine below
				h.run(s, fmt.Sprintf("t%d_%dx", g, i+1), i)
			}
		}(g, steps)
	}
	wg.Add(1)
	go func() {
		defer wg.Done()
		for i := 0; i < c.Writes; i++ {
			p := fmt.Sprintf("/w/%d/{a}/{b}/{c}", i)
			_, _ = h.f.Handle("GET", p, func(fox.Context) {})
			if i%2 == 1 {
				_, _ = h.f.Delete("GET", p)
			}
		}
	}()
	wg.Wait()
	h.recheckClones()
	if len(h.errs) > 0 {
		return fmt.Errorf("concurrent mix of %d workers: %s", len(c.Workers), strings.Join(h.errs, "\n  also: "))
	}
	return nil
}

func TestConcurrent(t *testing.T) {
	rapid.Check(t, func(t *rapid.T) {
		c := &ConcCase{Writes: gen.IntR(t, 0, 60, "writes")}
		nw := gen.IntR(t, 2, 6, "workers")
		total := 0
		for g := 0; g < nw; g++ {
			var steps []Step
			n := gen.IntR(t, 5, 60, "nsteps")
			for i := 0; i < n; i++ {
				steps = append(steps, genStep(t))
			}
			total += n
			c.Workers = append(c.Workers, steps)
		}
		stats.EvalN(total)
		stats.Class("concurrent-mix")
		stats.NonTrivial(fmt.Sprintf("conc|%v", c))
		if err := checkConcurrent(c); err != nil {
			stats.Fail("context-concurrent", c, "%v", err)
			t.Fatalf("%v", err)
		}
	})
}
