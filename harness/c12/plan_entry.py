ENTRY = {
    "C12": dict(
        pkg="c12", level="exploration",
        technique="token-tagged request sequences (rapid) with an isolation invariant checked inside every handler and middleware, re-inspection of stored clones, and concurrent mixes under the race detector",
        level_text="Every request of a generated sequence carries a unique token in its path parameter(s), query, request header and - once the handler ran - "
                   "response header, status and body size. Handlers and a global middleware (all scopes; optionally substituting a CloneWith context) check on "
                   "entry and after writing that every Context getter shows only the current token, for requests of eleven shapes (direct, hostname, catch-all, "
                   "ignored trailing slash both ways, redirect, 404, 405, OPTIONS, manual Lookup with and without tsr) over contexts recycled from earlier requests "
                   "of other shapes and over trees replaced in between. Clones taken before/after writing are stored and re-inspected after all later requests.",
        level_note="Expectations travel with the request (context value), so a wrong request in a Context shows up as disagreement between getters. Concurrent mixes sample schedules.",
        level_more='Later additions: a three-method server-side writer and io.WriteString, requests without a query string, net/http handlers behind WrapF keeping their request context, a handler panicking below CustomRecovery whose recovery function looks up another request, the live request edited in place after Clone, RemoteIP/ClientIP among the inspected getters.',
        rule="cases: request sequences; evaluations are requests; non-trivial = some request reuses a pooled context after a request of a different shape on the same tree; distinct by the step list",
        assumptions=["handlers only use the documented Context API"],
        quick=[REPLAY,
               R("sequences", "^TestSequences$", checks=2500, timeout=600),
               R("concurrent", "^TestConcurrent$", checks=60, race=True, timeout=600)],
        thorough=[REPLAY,
                  R("sequences", "^TestSequences$", checks=20000, shards=16, timeout=3000),
                  R("concurrent", "^TestConcurrent$", checks=600, race=True, shards=8, timeout=3000)],
        replay_race=True,
    ),
}
