// C01 — routing selects the documented route with the correct parameters.
package c01

import (
	"encoding/json"
	"fmt"
	"os"
	"reflect"
	"sort"
	"strings"
	"testing"

	"github.com/tigerwill90/fox"
	"pgregory.net/rapid"

	"verif/gen"
	"verif/ref"
	"verif/rt"
	"verif/stats"
)

func TestMain(m *testing.M) {
	stats.Init("C01")
	stats.RegisterReplay("routing", func(raw json.RawMessage) error {
		var c Case
		if err := json.Unmarshal(raw, &c); err != nil {
			return err
		}
		return checkCase(&c, false)
	})
	// the recorded input of open finding E is replayed without the exclusion that keeps it out of the generated runs
	stats.RegisterReplay("routing-unfiltered", func(raw json.RawMessage) error {
		var c Case
		if err := json.Unmarshal(raw, &c); err != nil {
			return err
		}
		noExclusion = true
		defer func() { noExclusion = false }()
		return checkCase(&c, false)
	})
	os.Exit(stats.Finish(m.Run()))
}

var noExclusion bool

func TestReplay(t *testing.T) { stats.RunReplays(t) }

// Case is one route set with the requests probed against it.
type Case struct {
	Routes []rt.RouteSpec `json:"routes"`
	Reqs   []rt.Req       `json:"reqs"`
}

func hasBoth(pats []string) bool {
	p, c := false, false
	for _, s := range pats {
		for _, w := range ref.Wildcards(s) {
			if w.CatchAll {
				c = true
			} else {
				p = true
			}
		}
	}
	return p && c
}

func sameParams(a, b []ref.Param) bool {
	if len(a) == 0 && len(b) == 0 {
		return true
	}
	return reflect.DeepEqual(a, b)
}

// checkCase is the oracle. It returns an error describing the first violation.
func checkCase(c *Case, count bool) error {
	r, err := rt.New(rt.Global{}, c.Routes)
	if err != nil {
		return nil
	}
	// second router: the same routes, one of them committed (the one with the fewest wildcards, but at least one, if there is
	// such a route: the committed tree is then sized for fewer parameters than the transaction's routes record) and the
	// others held uncommitted in a write transaction
	r2, _ := rt.New(rt.Global{}, nil)
	first := -1
	for i, s := range r.Routes {
		if n := len(ref.Wildcards(s.Pattern)); n > 0 && (first < 0 || n < len(ref.Wildcards(r.Routes[first].Pattern))) {
			first = i
		}
	}
	if first >= 0 {
		s := r.Routes[first]
		if _, err := r2.F.Handle(s.Method, s.Pattern, r2.Sink.Handler(s.Pattern)); err != nil {
			return fmt.Errorf("routes %v: registering %s %s alone on an empty router failed: %v", r.Routes, s.Method, s.Pattern, err)
		}
	}
	wtx := r2.F.Txn(true)
	defer wtx.Abort()
	for i, s := range r.Routes {
		if i == first {
			continue
		}
		if _, err := wtx.Handle(s.Method, s.Pattern, r2.Sink.Handler(s.Pattern)); err != nil {
			return fmt.Errorf("routes %v: registering %s %s inside a write transaction failed (%v) although the router accepted the same sequence", r.Routes, s.Method, s.Pattern, err)
		}
	}
	rtx := r.F.Txn(false)
	defer rtx.Abort()

	for _, q := range c.Reqs {
		pats := r.Patterns(q.Method)
		if rt.ExcludedE(q.Path, pats) && !noExclusion {
			if count {
				stats.Excluded("open finding E: request contains '*' and the method has both a parameter and a catch-all")
			}
			continue
		}
		host := ref.StripHost(q.Host)
		want, ok := ref.LookupAll(pats, host, q.Path)
		if !ok {
			if count {
				stats.Excluded("catch-all value would start with '/' (undocumented for infix catch-alls)")
			}
			continue
		}
		got := rt.DoLookup(r.F, q)
		desc := func() string {
			w := "<none>"
			if want.Route >= 0 {
				w = fmt.Sprintf("%s tsr=%v params=%v", pats[want.Route], want.Tsr, want.Params)
			}
			return fmt.Sprintf("routes(%s)=%q request host=%q path=%q: documented rules select %s; ", q.Method, pats, q.Host, q.Path, w)
		}
		if want.Route >= 0 && !want.Tsr {
			wp := pats[want.Route]
			if got.Pattern != wp || got.Tsr {
				return fmt.Errorf("%sLookup returned %v", desc(), got)
			}
			if msg := ref.CheckParams(wp, got.Params, host, q.Path); msg != "" {
				return fmt.Errorf("%sLookup returned params %v: %s", desc(), got.Params, msg)
			}
			if ref.UniqueSplit(wp) && !sameParams(got.Params, want.Params) {
				return fmt.Errorf("%sLookup returned params %v", desc(), got.Params)
			}
		} else if got.Pattern != "" && !got.Tsr {
			return fmt.Errorf("%sLookup returned a direct match %v", desc(), got)
		}
		// every other entry point agrees with Lookup on the selection
		type ep struct {
			name string
			o    rt.Obs
		}
		eps := []ep{
			{"Router.Reverse", rt.DoReverse(r.F, q)},
			{"Txn(read).Lookup", rt.DoLookup(rtx, q)},
			{"Txn(read).Reverse", rt.DoReverse(rtx, q)},
			{"Txn(write, uncommitted).Lookup", rt.DoLookup(wtx, q)},
			{"Txn(write, uncommitted).Reverse", rt.DoReverse(wtx, q)},
		}
		for _, e := range eps {
			if e.o.Pattern != got.Pattern || e.o.Tsr != got.Tsr {
				return fmt.Errorf("%sRouter.Lookup returned %v but %s returned %v", desc(), got, e.name, e.o)
			}
			if e.o.HasPs && got.Pattern != "" && !sameParams(e.o.Params, got.Params) {
				return fmt.Errorf("%sRouter.Lookup returned %v but %s returned %v", desc(), got, e.name, e.o)
			}
		}
		direct := got.Pattern != "" && !got.Tsr
		// Iter.Reverse (router snapshot and transaction snapshot)
		for name, it := range map[string]fox.Iter{"Router.Iter().Reverse": r.F.Iter(), "Txn(write).Iter().Reverse": wtx.Iter()} {
			var pat string
			n := 0
			for _, rte := range it.Reverse(func(yield func(string) bool) { yield(q.Method) }, q.Host, q.Path) {
				pat = rte.Pattern()
				n++
			}
			if direct && (n != 1 || pat != got.Pattern) {
				return fmt.Errorf("%sLookup returned %v but %s yielded %d route(s) %q", desc(), got, name, n, pat)
			}
			if !direct && n != 0 {
				return fmt.Errorf("%sLookup returned %v but %s yielded %q (no trailing-slash option is enabled)", desc(), got, name, pat)
			}
		}
		// ServeHTTP: which handler ran, with which params
		sv := r.ServeReq(q)
		if len(sv.Hits) != 1 {
			return fmt.Errorf("%sServeHTTP ran %d handlers", desc(), len(sv.Hits))
		}
		h := sv.Hits[0]
		if m := h.WrapMismatch(); m != "" {
			return fmt.Errorf("%s%s", desc(), m)
		}
		if direct {
			if h.Kind != "route" || h.Pattern != got.Pattern || !sameParams(h.Params, got.Params) {
				return fmt.Errorf("%sLookup returned %v but ServeHTTP ran %s handler pattern=%q params=%v", desc(), got, h.Kind, h.Pattern, h.Params)
			}
		} else if h.Kind != "noroute" {
			return fmt.Errorf("%sLookup returned %v but ServeHTTP ran %s handler pattern=%q", desc(), got, h.Kind, h.Pattern)
		}
		// the router whose other routes sit in an open transaction routes nothing but its one committed route
		if o := rt.DoLookup(r2.F, q); o.Pattern != "" && (first < 0 || o.Pattern != r.Routes[first].Pattern || q.Method != r.Routes[first].Method) {
			return fmt.Errorf("%suncommitted routes are visible through the router: %v", desc(), o)
		}
		if count {
			classify(pats, q, want)
		}
	}
	return nil
}

func classify(pats []string, q rt.Req, want ref.Result) {
	switch {
	case want.Route < 0:
		stats.Class("want:no-route")
	case want.Tsr:
		stats.Class("want:trailing-slash-only")
	default:
		stats.Class("want:direct")
	}
	switch {
	case want.Backtracks == 0:
		stats.Class("backtracks:0")
	case want.Backtracks == 1:
		stats.Class("backtracks:1")
	default:
		stats.Class("backtracks:>=2")
	}
	if want.HostFallback {
		stats.Class("hostname-fallback-to-path-only")
	}
	if want.HostMode {
		stats.Class("matched-by-hostname-route")
	}
	if want.Route >= 0 {
		for _, w := range ref.Wildcards(pats[want.Route]) {
			if w.CatchAll && w.End != len(pats[want.Route]) {
				stats.Class("selected:infix-catch-all")
			}
			if w.InHost {
				stats.Class("selected:host-param")
			}
			if w.Start > 0 && pats[want.Route][w.Start-1] != '/' && pats[want.Route][w.Start-1] != '.' {
				stats.Class("selected:mid-segment-wildcard")
			}
		}
	}
	if q.Method != "GET" && q.Method != "POST" {
		stats.Class("custom-method")
		if want.Route >= 0 {
			stats.Class("custom-method:matched")
		}
	}
	if want.Backtracks >= 1 || len(want.Params) > 0 || want.HostFallback {
		sp := append([]string(nil), pats...)
		sort.Strings(sp)
		stats.NonTrivial(q.Method + "|" + strings.Join(sp, " ") + "|" + q.Host + "|" + q.Path)
	}
}

var methods = []string{"GET", "GET", "POST", "FOO", "PATCH", "FOO"}

func genCase(t *rapid.T) *Case {
	c := &Case{}
	if gen.Chance(t, 1, 5, "competition") {
		// candidates of different priority (static, prefixed parameter, parameter, catch-all) for the same requests,
		// directly and once the trailing slash is adjusted
		pats, paths := gen.Competition(t)
		for _, p := range pats {
			c.Routes = append(c.Routes, rt.RouteSpec{Method: "GET", Pattern: p})
		}
		for _, p := range paths {
			c.Reqs = append(c.Reqs, rt.Req{Method: "GET", Path: p})
		}
		return c
	}
	if gen.Chance(t, 1, 25, "longtwins") {
		// routes that share a long stretch of text inside one tree node and differ only after it (32, 33, 64 ... bytes in):
		// registered one after the other, each is found under its own text, for paths and for hostnames
		n := gen.Pick(t, []int{31, 32, 33, 40, 63, 64, 65, 100}, "shared")
		stem := strings.Repeat("abcdefghij", 11)[:n]
		hstem := "tenant-a.api.eu-central-1.internal.example-" + strings.Repeat("x", max(n-43, 0))
		for _, p := range []string{"/" + stem + "one", "/" + stem + "two/{id}", "/" + stem + "t", hstem + ".com/status", hstem + ".org/status", hstem + ".org/{p}"} {
			c.Routes = append(c.Routes, rt.RouteSpec{Method: "GET", Pattern: p})
		}
		for _, q := range [][2]string{{"", "/" + stem + "one"}, {"", "/" + stem + "two/7"}, {"", "/" + stem + "t"}, {"", "/" + stem + "tw"}, {hstem + ".com", "/status"}, {hstem + ".org", "/status"}, {hstem + ".org", "/zz"}, {hstem + ".net", "/status"}, {"tenant-a.ap.org", "/status"}} {
			c.Reqs = append(c.Reqs, rt.Req{Method: "GET", Host: q[0], Path: q[1]})
		}
		return c
	}
	if gen.Chance(t, 1, 25, "wide") {
		// a node that first grows beyond 50 children (edge search by bisection from there on) and only then gets a parameter
		// and a catch-all child, and routes below those two
		for _, ch := range "0123456789ABCDEFGHIJKLMNOPQRSTUVWXYZabcdefghijklmnopq"[:gen.IntR(t, 51, 53, "wn")] {
			c.Routes = append(c.Routes, rt.RouteSpec{Method: "GET", Pattern: "/w/" + string(ch)})
		}
		for _, p := range []string{"/w/{pw}", "/w/*{cw}", "/w/{pw}/x", "/w/*{cw}/y"} {
			c.Routes = append(c.Routes, rt.RouteSpec{Method: "GET", Pattern: p})
		}
		for _, p := range []string{"/w/zz", "/w/docs/readme", "/w/zz/x", "/w/a/b/y", "/w/0", "/w/00", "/w/q/x"} {
			c.Reqs = append(c.Reqs, rt.Req{Method: "GET", Path: p})
		}
		return c
	}
	n := gen.IntR(t, 1, 10, "nroutes")
	hostW := gen.Pick(t, []int{2, 2, 1000}, "hostweight")
	var pool []string
	multi := gen.IntR(t, 0, 9, "multi") < 4
	for i := 0; i < n; i++ {
		p := gen.Pattern(t, pool, hostW, false)
		pool = append(pool, p)
		m := "GET"
		if multi {
			m = gen.Pick(t, methods, "method")
		}
		c.Routes = append(c.Routes, rt.RouteSpec{Method: m, Pattern: p})
	}
	nreq := gen.IntR(t, 1, 6, "nreq")
	for i := 0; i < nreq; i++ {
		src := gen.Pick(t, c.Routes, "src")
		if !ref.ValidPattern(src.Pattern, 1<<16, 1<<16) {
			continue
		}
		host, path := gen.Instantiate(t, src.Pattern)
		path = gen.MutatePath(t, path)
		host = gen.MutateHost(t, host)
		if strings.Contains(path, "//") {
			continue
		}
		m := src.Method
		if multi && gen.IntR(t, 0, 4, "othermethod") == 0 {
			m = gen.Pick(t, methods, "reqmethod")
		}
		q := rt.Req{Method: m, Host: host, Path: path}
		if gen.Chance(t, 1, 8, "rawbytes") {
			// a target with bytes a client sent unescaped although net/url would escape them: the server keeps it verbatim in
			// URL.RawPath, and that is the path every entry point routes on
			segs := strings.Split(path, "/")
			if k := gen.IntR(t, 1, max(len(segs)-1, 1), "rawat"); k < len(segs) && segs[k] != "" {
				segs[k] = gen.Pick(t, []string{"{x}", "a|b", "a^", "\"q\"", "<a>", "a`b", "a\\b", "{", "}"}, "rawval")
				q.Path, q.Escaped = strings.Join(segs, "/"), true
			}
		}
		c.Reqs = append(c.Reqs, q)
	}
	return c
}

func runCase(t *rapid.T, c *Case) {
	defer stats.Guard("routing", func() any { return c })()
	stats.EvalN(len(c.Reqs))
	stats.Sample(c)
	if err := checkCase(c, true); err != nil {
		stats.Fail("routing", c, "%v", err)
		t.Fatalf("%v", err)
	}
}

func TestRandom(t *testing.T) {
	rapid.Check(t, func(t *rapid.T) { runCase(t, genCase(t)) })
}

// TestFanOut: one node with 45-70 distinct next bytes (the 50-child search switch), plus wildcard siblings.
func TestFanOut(t *testing.T) {
	alphabet := "abcdefghijklmnopqrstuvwxyzABCDEFGHIJKLMNOPQRSTUVWXYZ0123456789-_.~!$&'()+,;=:@"
	rapid.Check(t, func(t *rapid.T) {
		c := &Case{}
		k := gen.IntR(t, 45, 70, "fanout")
		perm := rapid.Permutation([]byte(alphabet)).Draw(t, "perm")[:k]
		base := gen.Pick(t, []string{"/", "/f/", "/f/a"}, "base")
		for _, b := range perm {
			tail := gen.Pick(t, []string{"", "x", "/y", "/{p1}"}, "tail")
			c.Routes = append(c.Routes, rt.RouteSpec{Method: "GET", Pattern: base + string(b) + tail})
		}
		if rapid.Bool().Draw(t, "param") {
			c.Routes = append(c.Routes, rt.RouteSpec{Method: "GET", Pattern: base + "{p0}"})
		}
		if rapid.Bool().Draw(t, "catchall") {
			c.Routes = append(c.Routes, rt.RouteSpec{Method: "GET", Pattern: base + "*{c0}"})
		}
		c.Routes = rapid.Permutation(c.Routes).Draw(t, "order")
		for i := 0; i < 8; i++ {
			src := gen.Pick(t, c.Routes, "src")
			_, path := gen.Instantiate(t, src.Pattern)
			c.Reqs = append(c.Reqs, rt.Req{Method: "GET", Path: gen.MutatePath(t, path)})
		}
		stats.Class("fan-out>=45")
		runCase(t, c)
	})
}

// ---- exhaustive mode: every subset (size <= k) of a small pattern pool x every short path ----

func smallPool(maxSegs int) []string {
	toks := []string{"a", "b", "{p%d}", "*{c%d}", "a{p%d}", "a*{c%d}"}
	var out []string
	var rec func(prefix string, depth int, prevCatch bool)
	rec = func(prefix string, depth int, prevCatch bool) {
		if depth > 0 {
			out = append(out, prefix)
			out = append(out, prefix+"/")
		}
		if depth == maxSegs {
			return
		}
		for _, tk := range toks {
			if prevCatch && strings.HasPrefix(tk, "*") {
				continue
			}
			s := tk
			if strings.Contains(tk, "%d") {
				s = fmt.Sprintf(tk, depth)
			}
			rec(prefix+"/"+s, depth+1, strings.Contains(tk, "*"))
		}
	}
	rec("", 0, false)
	return append([]string{"/"}, out...)
}

func allPaths(maxLen int) []string {
	var out []string
	var rec func(p string)
	rec = func(p string) {
		out = append(out, p)
		if len(p) == maxLen {
			return
		}
		for _, c := range []string{"/", "a", "b"} {
			if c == "/" && strings.HasSuffix(p, "/") {
				continue
			}
			rec(p + c)
		}
	}
	rec("/")
	return out
}

func TestExhaustive(t *testing.T) {
	segs := stats.EnvInt("C01_EXH_SEGS", 2)
	size := stats.EnvInt("C01_EXH_SUBSET", 2)
	plen := stats.EnvInt("C01_EXH_PATHLEN", 6)
	shard, shards := stats.EnvInt("VERIF_SHARD", 0), stats.EnvInt("VERIF_SHARDS", 1)
	pool := smallPool(segs)
	paths := allPaths(plen)
	stats.Note("exhaustive", fmt.Sprintf("all subsets of size <= %d of the %d patterns over tokens {a b {p} *{c} a{p} a*{c}} with <= %d segments, x all %d paths over {/ a b} up to length %d without empty segments", size, len(pool), segs, len(paths), plen))
	reqs := make([]rt.Req, len(paths))
	for i, p := range paths {
		reqs[i] = rt.Req{Method: "GET", Path: p}
	}
	n := 0
	var rec func(start int, cur []rt.RouteSpec)
	rec = func(start int, cur []rt.RouteSpec) {
		if stats.Failed() {
			return
		}
		if len(cur) > 0 {
			n++
			if n%shards == shard {
				c := &Case{Routes: cur, Reqs: reqs}
				stats.EvalN(len(reqs))
				if n%5000 == 1 {
					stats.Sample(&Case{Routes: cur, Reqs: reqs[:3]})
				}
				if err := checkCase(c, true); err != nil {
					// narrow to the single failing request for the replay file
					for _, q := range reqs {
						one := &Case{Routes: append([]rt.RouteSpec(nil), cur...), Reqs: []rt.Req{q}}
						if e := checkCase(one, false); e != nil {
							stats.Fail("routing", one, "%v", e)
							t.Errorf("%v", e)
							return
						}
					}
					stats.Fail("routing", c, "%v", err)
					t.Errorf("%v", err)
					return
				}
			}
		}
		if len(cur) == size {
			return
		}
		for i := start; i < len(pool); i++ {
			rec(i+1, append(cur[:len(cur):len(cur)], rt.RouteSpec{Method: "GET", Pattern: pool[i]}))
		}
	}
	rec(0, nil)
}
