// C04 — transactions are atomic and isolated.
package c04

import (
	"encoding/json"
	"fmt"
	"net/http"
	"net/http/httptest"
	"os"
	"sort"
	"strings"
	"sync"
	"sync/atomic"
	"testing"
	"time"

	"github.com/tigerwill90/fox"
	"pgregory.net/rapid"

	"verif/gen"
	"verif/hist"
	"verif/stats"
)

func TestMain(m *testing.M) {
	stats.Init("C04")
	stats.RegisterReplay("history", hist.Replay)
	stats.RegisterReplay("concurrent-groups", func(raw json.RawMessage) error {
		var c struct {
			Rounds int `json:"rounds"`
		}
		_ = json.Unmarshal(raw, &c)
		for i := 0; i < 5; i++ { // schedule-dependent: several attempts
			if err := runConcurrentGroups(max(c.Rounds, 100)); err != nil {
				return err
			}
		}
		return nil
	})
	os.Exit(stats.Finish(m.Run()))
}

func TestReplay(t *testing.T) { stats.RunReplays(t) }

func canon(h *hist.History) string {
	var sb strings.Builder
	for _, op := range h.Ops {
		sb.WriteString(op.String())
		sb.WriteByte(';')
	}
	return sb.String()
}

func after(e *hist.Engine, h *hist.History) {
	for k, v := range e.Stat {
		if strings.HasPrefix(k, "txn:") || strings.HasPrefix(k, "nontrivial:multi") || strings.HasPrefix(k, "settled") || strings.HasPrefix(k, "readonly") {
			stats.ClassN(k, v)
		}
	}
	if e.Stat["nontrivial:multi-write-txn-ended-by-error-or-panic"] > 0 || e.Stat["txn:aborted"] > 0 {
		stats.NonTrivial(canon(h))
	}
	stats.Sample(h)
}

// Sequential part: transactions with generated bodies ended by commit, abort, returned error or an
// injected panic; between every step the router must show the pre-transaction state and the
// transaction its own writes; afterwards all or nothing, and a new write must get the lock.
func TestTransactions(t *testing.T) {
	rapid.Check(t, func(t *rapid.T) {
		cfg := hist.Cfg{Observers: true, Methods: []string{"GET", "POST", "FOO"}}
		cfg.QuietTxn = gen.Chance(t, 1, 2, "quietTxn")
		g := hist.GenCfg{Txn: true, Managed: true, Snapshots: true, Misuse: true, MaxBody: 6}
		hist.RunRapid(t, "history", cfg, g, after)
	})
}

// TestEveryCut: for a generated transaction body, the panic / error is injected after every prefix.
func TestEveryCut(t *testing.T) {
	rapid.Check(t, func(t *rapid.T) {
		e, err := hist.New(hist.Cfg{Observers: true, Methods: []string{"GET", "POST"}})
		if err != nil {
			t.Fatal(err)
		}
		defer e.Close()
		h := &hist.History{Cfg: e.Cfg}
		defer stats.Guard("history", func() any { return h })()
		step := func(op hist.Op) {
			h.Ops = append(h.Ops, op)
			if err := e.Step(op); err != nil {
				stats.Fail("history", h, "%v", err)
				t.Fatalf("%v", err)
			}
		}
		g := hist.GenCfg{MaxBody: 0}
		for i := gen.IntR(t, 0, 6, "pre"); i > 0; i-- {
			step(e.GenOp(t, g))
		}
		var body []hist.Op
		for i := gen.IntR(t, 2, 6, "nbody"); i > 0; i-- {
			body = append(body, e.GenOp(t, g))
		}
		for cut := 0; cut <= len(body); cut++ {
			for _, end := range []string{"panic", "err"} {
				step(hist.Op{Kind: "updates", Body: body[:cut], End: end})
				step(hist.Op{Kind: "settled-use"})
			}
		}
		step(hist.Op{Kind: "updates", Body: body, End: "ok"})
		step(hist.Op{Kind: "handle", Method: "GET", Pattern: "/lock-is-free"})
		stats.EvalN(len(h.Ops))
		stats.ClassN("fault-injection-cuts", 2*(len(body)+1))
		stats.NonTrivial("cuts|" + canon(h))
		stats.Sample(h)
	})
}

// TestConcurrentGroups (run with -race): writers replace groups of k routes in one transaction, every
// member carrying the same stamp; every observation made from one tree must show one stamp per group.
func TestConcurrentGroups(t *testing.T) {
	rounds := stats.EnvInt("C04_CONC_ROUNDS", 400)
	if err := runConcurrentGroups(rounds); err != nil {
		stats.Fail("concurrent-groups", map[string]any{"rounds": rounds}, "%v", err)
		t.Fatal(err)
	}
}

func runConcurrentGroups(rounds int) error {
	const groups, k = 3, 4
	f, err := fox.New(fox.WithNoMethod(true), fox.WithAutoOptions(true))
	if err != nil {
		return nil
	}
	methods := []string{"GET", "POST", "PUT", "DELETE"}
	var stampOf sync.Map // *fox.Route -> stamp
	mk := func(stamp int64) fox.HandlerFunc {
		return func(c fox.Context) { c.Writer().Header().Set("X-Stamp", fmt.Sprint(stamp)) }
	}
	annot := struct{ k string }{"stamp"}
	// group g: the same path under k methods (GET.. ) and k paths under one method
	install := func(txn *fox.Txn, g int, stamp int64, update bool) error {
		for i := 0; i < k; i++ {
			for _, spec := range [][2]string{{methods[i], fmt.Sprintf("/g%d/same", g)}, {"GET", fmt.Sprintf("/g%d/m%d/{p}", g, i)}} {
				var rte *fox.Route
				var err error
				if update {
					rte, err = txn.Update(spec[0], spec[1], mk(stamp), fox.WithAnnotation(annot, stamp))
				} else {
					rte, err = txn.Handle(spec[0], spec[1], mk(stamp), fox.WithAnnotation(annot, stamp))
				}
				if err != nil {
					return err
				}
				stampOf.Store(rte, stamp)
			}
		}
		return nil
	}
	if err := f.Updates(func(txn *fox.Txn) error {
		for g := 0; g < groups; g++ {
			if err := install(txn, g, 0, false); err != nil {
				return err
			}
		}
		return nil
	}); err != nil {
		return fmt.Errorf("initial registration failed: %v", err)
	}
	var failMsg atomic.Value
	fail := func(format string, a ...any) { failMsg.CompareAndSwap(nil, fmt.Sprintf(format, a...)) }
	stop := make(chan struct{})
	var wg sync.WaitGroup
	var overlaps, observations atomic.Int64
	checkStamps := func(who string, per map[int][]int64) {
		for g, ss := range per {
			if len(ss) != 2*k {
				fail("%s saw %d of %d members of group %d", who, len(ss), 2*k, g)
				return
			}
			if ss[0]%5 == 0 && ss[0] != 0 {
				fail("%s saw stamp %d of group %d, written by a transaction whose function returned an error", who, ss[0], g)
				return
			}
			for _, s := range ss {
				if s != ss[0] {
					sort.Slice(ss, func(i, j int) bool { return ss[i] < ss[j] })
					fail("%s saw group %d with mixed stamps %v: part of a transaction's writes", who, g, ss)
					return
				}
			}
		}
	}
	reader := func(id int) {
		defer wg.Done()
		last := map[int]int64{}
		for {
			select {
			case <-stop:
				return
			default:
			}
			per := map[int][]int64{}
			switch id % 3 {
			case 0: // one Iter pass
				it := f.Iter()
				for _, r := range it.All() {
					var g int
					if _, err := fmt.Sscanf(r.Pattern(), "/g%d/", &g); err == nil {
						per[g] = append(per[g], r.Annotation(annot).(int64))
					}
				}
			case 1: // one View transaction
				_ = f.View(func(txn *fox.Txn) error {
					for g := 0; g < groups; g++ {
						for i := 0; i < k; i++ {
							if r := txn.Route(methods[i], fmt.Sprintf("/g%d/same", g)); r != nil {
								per[g] = append(per[g], r.Annotation(annot).(int64))
							}
							if r := txn.Route("GET", fmt.Sprintf("/g%d/m%d/{p}", g, i)); r != nil {
								per[g] = append(per[g], r.Annotation(annot).(int64))
							}
						}
					}
					return nil
				})
			default: // requests: each is served from one tree; Allow of a 405 must list all k methods (group present) — stamps via separate requests are not comparable
				g := id % groups
				w := httptest.NewRecorder()
				f.ServeHTTP(w, httptest.NewRequest("PATCH", fmt.Sprintf("/g%d/same", g), nil))
				allow := w.Header().Get("Allow")
				n := 0
				for _, m := range methods {
					if strings.Contains(allow, m) {
						n++
					}
				}
				if w.Code != http.StatusMethodNotAllowed || n != k {
					fail("reader %d: PATCH /g%d/same answered %d with Allow %q: the %d methods of the group are registered in one transaction", id, g, w.Code, allow, k)
					return
				}
				observations.Add(1)
				continue
			}
			checkStamps(fmt.Sprintf("reader %d", id), per)
			for g, ss := range per {
				if len(ss) > 0 {
					if ss[0] != last[g] {
						overlaps.Add(1)
					}
					if ss[0] < last[g] {
						fail("reader %d saw group %d go back from stamp %d to %d", id, g, last[g], ss[0])
					}
					last[g] = ss[0]
				}
			}
			observations.Add(1)
			if failMsg.Load() != nil {
				return
			}
		}
	}
	for i := 0; i < 6; i++ {
		wg.Add(1)
		go reader(i)
	}
	for s := int64(1); s <= int64(rounds) && failMsg.Load() == nil; s++ {
		g := int(s) % groups
		var err error
		werr, inconclusive := hist.Guarded(func() {
			err = f.Updates(func(txn *fox.Txn) error {
				if err := install(txn, g, s, true); err != nil {
					return err
				}
				if s%5 == 0 {
					return fmt.Errorf("abort this one") // never visible
				}
				return nil
			})
		}, 20*time.Second)
		if werr != nil {
			if inconclusive {
				hist.Inconclusive = true
			}
			fail("round %d: %v", s, werr)
			break
		}
		if s%5 == 0 && err == nil {
			fail("Updates swallowed the function's error")
		}
	}
	close(stop)
	wg.Wait()
	stats.EvalN(int(observations.Load()))
	stats.ClassN("concurrent-observations", int(observations.Load()))
	stats.ClassN("observations-that-saw-a-new-commit", int(overlaps.Load()))
	stats.NonTrivial(fmt.Sprintf("concurrent|%d|%d", rounds, overlaps.Load()))
	stats.NonTrivial(fmt.Sprintf("concurrent-groups|%d", rounds))
	if m := failMsg.Load(); m != nil {
		return fmt.Errorf("%v", m)
	}
	return nil
}
