// Package rt builds fox routers from serialisable specs and observes them
// through the public API only. It is shared by the routing checks.
package rt

import (
	"fmt"
	"io"
	"net/http"
	"net/url"
	"sort"
	"strings"

	"github.com/tigerwill90/fox"

	"verif/ref"
	"verif/stats"
)

// Trailing-slash option of a route or router.
const (
	TSNone = iota
	TSIgnore
	TSRedirect
	TSInherit // route only: no option given
)

// RouteSpec is one registration.
type RouteSpec struct {
	Method  string `json:"method"`
	Pattern string `json:"pattern"`
	TS      int    `json:"ts,omitempty"` // TSInherit (3) / 0 = inherit as well for brevity in specs
}

// Global are the router options of a case.
type Global struct {
	TS          int  `json:"ts,omitempty"`
	NoMethod    bool `json:"no_method,omitempty"`
	AutoOptions bool `json:"auto_options,omitempty"`
	// NoMethodOff (only without NoMethod): a no-method handler is configured and then switched off again by a later
	// WithNoMethod(false): options apply in order, so unserved requests end in the no-route handler.
	NoMethodOff bool `json:"no_method_off,omitempty"`
	// OneTxn: the routes are registered in one write transaction by a set-up routine that is idempotent the easy way: after each
	// registration it registers the first route of that method again and tolerates the refusal.
	OneTxn bool `json:"one_txn,omitempty"`
	// DefaultSpecials: fox's own 405 and automatic-OPTIONS handlers stay in place (WithNoMethod(true) / WithAutoOptions(true));
	// they are observed by a middleware scoped to them instead of being replaced.
	DefaultSpecials bool `json:"default_specials,omitempty"`
}

// Req is one request.
type Req struct {
	Method string `json:"method"`
	Host   string `json:"host"`
	Path   string `json:"path"`
	// Escaped: Path is the escaped form a server received (URL.RawPath), e.g. "/files/a%2Fb"; URL.Path is its decoded form.
	// The router routes on the escaped form, so Path stays the routing path either way.
	Escaped bool `json:"escaped,omitempty"`
	// Header: request header fields beyond Host ("Name: value").
	Header []string `json:"header,omitempty"`
}

// Hit is what a handler observed.
type Hit struct {
	Kind     string      `json:"kind"` // "route", "noroute", "nomethod", "options", "redirect"
	Pattern  string      `json:"pattern"`
	Params   []ref.Param `json:"params"`
	Scope    fox.HandlerScope
	RouteNil bool
	// Wrapped is what a net/http handler adapted with fox.WrapF sees through fox.ParamsFromContext for the same request
	// (route handlers only): the adapters promise the same parameters as Context.Params.
	Wrapped []ref.Param `json:"wrapped,omitempty"`
	// CloneWithDiff is non-empty when a context obtained with c.CloneWith(c.Writer(), c.Request()) inside the handler does not
	// expose the same pattern and parameters as c itself (CloneWith copies come from the pool like every context).
	CloneWithDiff string `json:"clone_with_diff,omitempty"`
}

// cloneWithDiff compares c with a CloneWith copy of it.
func cloneWithDiff(c fox.Context) string {
	cp := c.CloneWith(c.Writer(), c.Request())
	defer cp.Close()
	want, got := Collect(c), Collect(cp)
	same := len(want) == len(got) && cp.Pattern() == c.Pattern() && (cp.Route() == nil) == (c.Route() == nil) && cp.Scope() == c.Scope()
	for i := 0; same && i < len(want); i++ {
		same = want[i] == got[i]
	}
	if same {
		return ""
	}
	return fmt.Sprintf("c.CloneWith(c.Writer(), c.Request()) exposes pattern %q params %v scope %d, the context itself pattern %q params %v scope %d", cp.Pattern(), got, cp.Scope(), c.Pattern(), want, c.Scope())
}

// WrapMismatch describes a difference between Context.Params and the parameters handed to a wrapped net/http handler, "" if none.
func (h Hit) WrapMismatch() string {
	if h.CloneWithDiff != "" {
		return h.CloneWithDiff
	}
	if h.Kind != "route" || len(h.Params) == 0 && len(h.Wrapped) == 0 {
		return ""
	}
	if len(h.Params) != len(h.Wrapped) {
		return fmt.Sprintf("a handler adapted with fox.WrapF sees params %v through ParamsFromContext, Context.Params gives %v", h.Wrapped, h.Params)
	}
	for i := range h.Params {
		if h.Params[i] != h.Wrapped[i] {
			return fmt.Sprintf("a handler adapted with fox.WrapF sees params %v through ParamsFromContext, Context.Params gives %v", h.Wrapped, h.Params)
		}
	}
	return ""
}

// Sink receives the hits of the handlers of one router.
type Sink struct {
	Hits []Hit
	// F, when set (rt.New sets it), makes every recording handler first look up a neighbour of its own request through the
	// router (same method and host, the path with one more byte): handlers may call Lookup, and whatever that nested
	// lookup does with pooled contexts must leave the handler's own context alone.
	F  *fox.Router
	nw fox.ResponseWriter
	// Names are the wildcard names of every registered pattern (rt.New fills them in): Context.Param is asked for each of
	// them and must answer what Context.Params yields - the value under that name, or "" when the context has no such parameter.
	Names []string
}

// paramDiff compares Context.Param with Context.Params for every known wildcard name.
func (s *Sink) paramDiff(c fox.Context, ps []ref.Param) string {
	for _, name := range s.Names {
		want := ""
		for _, p := range ps {
			if p.Key == name {
				want = p.Value
				break
			}
		}
		if got := c.Param(name); got != want {
			return fmt.Sprintf("Context.Param(%q) = %q, but Context.Params yields %v", name, got, ps)
		}
	}
	return ""
}

func (s *Sink) nested(c fox.Context) {
	if s.F == nil {
		return
	}
	r := c.Request()
	u := *r.URL
	u.Path += "x"
	if u.RawPath != "" {
		u.RawPath += "x"
	}
	req := &http.Request{Method: r.Method, Host: r.Host, URL: &u, Header: http.Header{}, Proto: "HTTP/1.1", ProtoMajor: 1, ProtoMinor: 1, RemoteAddr: r.RemoteAddr}
	if s.nw == nil {
		s.nw = Writer(&NopWriter{H: http.Header{}}, req)
	}
	if rte, cc, _ := s.F.Lookup(s.nw, req); rte != nil {
		cc.Close()
	}
}

func (s *Sink) reset() { s.Hits = s.Hits[:0] }

// Collect returns the parameters a context exposes.
func Collect(c fox.Context) []ref.Param {
	var ps []ref.Param
	for p := range c.Params() {
		ps = append(ps, ref.Param{Key: p.Key, Value: p.Value})
	}
	return ps
}

// Router couples a fox router with its sink and the accepted specs.
type Router struct {
	F      *fox.Router
	Sink   *Sink
	Routes []RouteSpec // accepted registrations, in order
	G      Global
	// Preset, when set, is copied into the response header before ServeHTTP runs: what an outer net/http middleware left there.
	Preset http.Header
}

// GlobalOptions translates Global into fox options, installing recording special handlers.
func GlobalOptions(g Global, sink *Sink) []fox.GlobalOption {
	opts := []fox.GlobalOption{
		fox.WithNoRouteHandler(func(c fox.Context) {
			sink.nested(c)
			sink.Hits = append(sink.Hits, Hit{Kind: "noroute", Pattern: c.Pattern(), Params: Collect(c), Scope: c.Scope(), RouteNil: c.Route() == nil, CloneWithDiff: cloneWithDiff(c)})
			c.Writer().WriteHeader(http.StatusNotFound)
		}),
	}
	if g.DefaultSpecials {
		if g.NoMethod {
			opts = append(opts, fox.WithNoMethod(true))
		}
		if g.AutoOptions {
			opts = append(opts, fox.WithAutoOptions(true))
		}
		opts = append(opts, fox.WithMiddlewareFor(fox.NoMethodHandler|fox.OptionsHandler, func(next fox.HandlerFunc) fox.HandlerFunc {
			return func(c fox.Context) {
				kind := "nomethod"
				if c.Scope() == fox.OptionsHandler {
					kind = "options"
				}
				sink.nested(c)
				sink.Hits = append(sink.Hits, Hit{Kind: kind, Pattern: c.Pattern(), Params: Collect(c), Scope: c.Scope(), RouteNil: c.Route() == nil, CloneWithDiff: cloneWithDiff(c)})
				next(c)
			}
		}))
		g.NoMethod, g.AutoOptions, g.NoMethodOff = false, false, false
	}
	if g.NoMethod {
		opts = append(opts, fox.WithNoMethodHandler(func(c fox.Context) {
			sink.nested(c)
			sink.Hits = append(sink.Hits, Hit{Kind: "nomethod", Pattern: c.Pattern(), Params: Collect(c), Scope: c.Scope(), RouteNil: c.Route() == nil, CloneWithDiff: cloneWithDiff(c)})
			c.Writer().WriteHeader(http.StatusMethodNotAllowed)
		}))
	}
	if !g.NoMethod && g.NoMethodOff {
		opts = append(opts, fox.WithNoMethodHandler(func(c fox.Context) {
			sink.Hits = append(sink.Hits, Hit{Kind: "nomethod", Pattern: c.Pattern(), Params: Collect(c), Scope: c.Scope(), RouteNil: c.Route() == nil})
			c.Writer().WriteHeader(http.StatusMethodNotAllowed)
		}), fox.WithNoMethod(false))
	}
	if g.AutoOptions {
		opts = append(opts, fox.WithOptionsHandler(func(c fox.Context) {
			sink.nested(c)
			sink.Hits = append(sink.Hits, Hit{Kind: "options", Pattern: c.Pattern(), Params: Collect(c), Scope: c.Scope(), RouteNil: c.Route() == nil, CloneWithDiff: cloneWithDiff(c)})
			c.Writer().WriteHeader(http.StatusOK)
		}))
	}
	switch g.TS {
	case TSIgnore:
		opts = append(opts, fox.WithIgnoreTrailingSlash(true))
	case TSRedirect:
		opts = append(opts, fox.WithRedirectTrailingSlash(true))
	}
	// observe the redirect handler without changing it
	opts = append(opts, fox.WithMiddlewareFor(fox.RedirectHandler, func(next fox.HandlerFunc) fox.HandlerFunc {
		return func(c fox.Context) {
			sink.nested(c)
			sink.Hits = append(sink.Hits, Hit{Kind: "redirect", Pattern: c.Pattern(), Params: Collect(c), Scope: c.Scope(), RouteNil: c.Route() == nil, CloneWithDiff: cloneWithDiff(c)})
			next(c)
		}
	}))
	return opts
}

// RouteOptions translates a route's TS setting.
func RouteOptions(ts int) []fox.RouteOption {
	switch ts {
	case TSIgnore:
		return []fox.RouteOption{fox.WithIgnoreTrailingSlash(true)}
	case TSRedirect:
		return []fox.RouteOption{fox.WithRedirectTrailingSlash(true)}
	case TSOff: // explicit "off" for both
		return []fox.RouteOption{fox.WithIgnoreTrailingSlash(false), fox.WithRedirectTrailingSlash(false)}
	}
	return nil
}

// TSOff is the explicit per-route "neither ignore nor redirect" setting.
const TSOff = 4

// EffectiveTS resolves a route's trailing-slash mode against the router default.
func EffectiveTS(g Global, r RouteSpec) int {
	switch r.TS {
	case TSIgnore, TSRedirect:
		return r.TS
	case TSOff:
		return TSNone
	}
	return g.TS
}

// Handler returns the recording route handler for a pattern.
func (s *Sink) Handler(pattern string) fox.HandlerFunc {
	return func(c fox.Context) {
		s.nested(c)
		hit := Hit{Kind: "route", Pattern: c.Pattern(), Params: Collect(c), Scope: c.Scope(), RouteNil: c.Route() == nil, CloneWithDiff: cloneWithDiff(c)}
		if hit.CloneWithDiff == "" {
			hit.CloneWithDiff = s.paramDiff(c, hit.Params)
		}
		fox.WrapF(func(_ http.ResponseWriter, r *http.Request) {
			for _, p := range fox.ParamsFromContext(r.Context()) {
				hit.Wrapped = append(hit.Wrapped, ref.Param{Key: p.Key, Value: p.Value})
			}
		})(c)
		s.Hits = append(s.Hits, hit)
		_ = pattern
		c.Writer().WriteHeader(http.StatusOK)
	}
}

// Register is the minimal writer interface shared by *fox.Router and *fox.Txn.
type Register interface {
	Handle(method, pattern string, handler fox.HandlerFunc, opts ...fox.RouteOption) (*fox.Route, error)
}

// New builds a router and registers the specs in order; rejected registrations
// are dropped (the returned Router lists the accepted ones).
func New(g Global, specs []RouteSpec) (*Router, error) {
	sink := &Sink{}
	f, err := fox.New(GlobalOptions(g, sink)...)
	if err != nil {
		return nil, err
	}
	sink.F = f
	seen := map[string]bool{}
	for _, sp := range specs {
		if !ref.ValidPattern(sp.Pattern, 1<<16, 1<<16) {
			continue
		}
		for _, w := range ref.Wildcards(sp.Pattern) {
			if !seen[w.Name] {
				seen[w.Name] = true
				sink.Names = append(sink.Names, w.Name)
			}
		}
	}
	r := &Router{F: f, Sink: sink, G: g}
	if g.OneTxn {
		txn := f.Txn(true)
		first := map[string]string{}
		for _, s := range specs {
			if _, err := txn.Handle(s.Method, s.Pattern, sink.Handler(s.Pattern), RouteOptions(s.TS)...); err == nil {
				r.Routes = append(r.Routes, s)
				if _, ok := first[s.Method]; !ok {
					first[s.Method] = s.Pattern
				}
				if _, err := txn.Handle(s.Method, first[s.Method], sink.Handler(first[s.Method])); err == nil {
					txn.Abort()
					return nil, fmt.Errorf("%s %s was registered twice in one transaction", s.Method, first[s.Method])
				}
			}
		}
		txn.Commit()
		return r, nil
	}
	for _, s := range specs {
		if _, err := f.Handle(s.Method, s.Pattern, sink.Handler(s.Pattern), RouteOptions(s.TS)...); err == nil {
			r.Routes = append(r.Routes, s)
		}
	}
	return r, nil
}

// NewDetour is New followed by a detour through other route sets: every detour spec that the router accepts is registered
// after the specs and deleted again before the router is returned, so the registered set is the one New builds.
func NewDetour(g Global, specs, detour []RouteSpec) (*Router, error) {
	r, err := New(g, specs)
	if err != nil {
		return nil, err
	}
	var added []RouteSpec
	for _, s := range detour {
		if _, err := r.F.Handle(s.Method, s.Pattern, r.Sink.Handler(s.Pattern), RouteOptions(s.TS)...); err == nil {
			added = append(added, s)
		}
	}
	for i := len(added) - 1; i >= 0; i-- {
		if _, err := r.F.Delete(added[i].Method, added[i].Pattern); err != nil {
			return nil, fmt.Errorf("detour route %s %s was registered but Delete returned %v", added[i].Method, added[i].Pattern, err)
		}
	}
	return r, nil
}

// Patterns returns the accepted patterns of one method, in registration order.
func (r *Router) Patterns(method string) []string {
	var out []string
	for _, s := range r.Routes {
		if s.Method == method {
			out = append(out, s.Pattern)
		}
	}
	return out
}

// Spec returns the accepted spec of (method, pattern).
func (r *Router) Spec(method, pattern string) (RouteSpec, bool) {
	for _, s := range r.Routes {
		if s.Method == method && s.Pattern == pattern {
			return s, true
		}
	}
	return RouteSpec{}, false
}

// Methods returns the methods with at least one accepted route, sorted.
func (r *Router) Methods() []string {
	seen := map[string]bool{}
	var out []string
	for _, s := range r.Routes {
		if !seen[s.Method] {
			seen[s.Method] = true
			out = append(out, s.Method)
		}
	}
	sort.Strings(out)
	return out
}

// NewRequest builds a request whose URL.Path is exactly path (no RawPath) and whose Host is host.
func NewRequest(q Req) *http.Request {
	u := &url.URL{Scheme: "http", Host: "placeholder", Path: q.Path}
	if q.Escaped {
		if dec, err := url.PathUnescape(q.Path); err == nil && dec != q.Path {
			u.Path, u.RawPath = dec, q.Path
		} else if err == nil && (&url.URL{Path: q.Path}).EscapedPath() != q.Path {
			// bytes such as '{', '|' or '^' sent as they are: net/http's server keeps the target in RawPath because it is not
			// the default encoding of Path
			u.RawPath = q.Path
		}
	}
	req := &http.Request{
		Method: q.Method, URL: u, Proto: "HTTP/1.1", ProtoMajor: 1, ProtoMinor: 1,
		Header: http.Header{}, Host: q.Host, RemoteAddr: "192.0.2.1:1234", RequestURI: q.Path,
		Body: http.NoBody,
	}
	for _, h := range q.Header {
		if k, v, ok := strings.Cut(h, ": "); ok {
			req.Header.Add(k, v)
		}
	}
	return req
}

// Obs is one observation of a lookup-style entry point.
type Obs struct {
	Pattern string // "" when no route
	Tsr     bool
	Params  []ref.Param
	HasPs   bool // Params is meaningful
}

func (o Obs) String() string {
	if o.Pattern == "" {
		return fmt.Sprintf("<none> tsr=%v", o.Tsr)
	}
	if o.HasPs {
		return fmt.Sprintf("%s tsr=%v params=%v", o.Pattern, o.Tsr, o.Params)
	}
	return fmt.Sprintf("%s tsr=%v", o.Pattern, o.Tsr)
}

// Looker is the read interface shared by *fox.Router and *fox.Txn.
type Looker interface {
	Lookup(w fox.ResponseWriter, r *http.Request) (*fox.Route, fox.ContextCloser, bool)
	Reverse(method, host, path string) (*fox.Route, bool)
}

// NopWriter is an allocation-free http.ResponseWriter.
type NopWriter struct {
	H    http.Header
	Code int
}

func (n *NopWriter) Header() http.Header         { return n.H }
func (n *NopWriter) Write(b []byte) (int, error) { return len(b), nil }
func (n *NopWriter) WriteHeader(c int)           { n.Code = c }

// Writer wraps an http.ResponseWriter into a fox.ResponseWriter through the public test helper.
func Writer(w http.ResponseWriter, r *http.Request) fox.ResponseWriter {
	return fox.NewTestContextOnly(w, r).Writer()
}

// DoLookup observes Lookup.
func DoLookup(l Looker, q Req) Obs {
	req := NewRequest(q)
	w := &NopWriter{H: http.Header{}}
	rte, cc, tsr := l.Lookup(Writer(w, req), req)
	if rte == nil {
		return Obs{Tsr: tsr}
	}
	o := Obs{Pattern: rte.Pattern(), Tsr: tsr, HasPs: true, Params: Collect(cc)}
	cc.Close()
	return o
}

// DoReverse observes Reverse.
func DoReverse(l Looker, q Req) Obs {
	rte, tsr := l.Reverse(q.Method, q.Host, q.Path)
	if rte == nil {
		return Obs{Tsr: tsr}
	}
	return Obs{Pattern: rte.Pattern(), Tsr: tsr}
}

// Served is what ServeHTTP did.
type Served struct {
	Code   int
	Header http.Header
	Hits   []Hit
	Body   string
}

type recWriter struct {
	h    http.Header
	code int
	body strings.Builder
}

func (w *recWriter) Header() http.Header { return w.h }
func (w *recWriter) WriteHeader(c int) {
	if w.code == 0 {
		w.code = c
	}
}
func (w *recWriter) Write(b []byte) (int, error) {
	if w.code == 0 {
		w.code = 200
	}
	w.body.Write(b)
	return len(b), nil
}

// Serve runs ServeHTTP on a prepared request.
func (r *Router) Serve(req *http.Request) Served {
	r.Sink.reset()
	w := &recWriter{h: http.Header{}}
	for k, vs := range r.Preset {
		w.h[k] = append([]string(nil), vs...)
	}
	r.F.ServeHTTP(w, req)
	hits := append([]Hit(nil), r.Sink.Hits...)
	return Served{Code: w.code, Header: w.h, Hits: hits, Body: w.body.String()}
}

// ServeReq runs ServeHTTP on a Req.
func (r *Router) ServeReq(q Req) Served { return r.Serve(NewRequest(q)) }

var _ = io.Discard

var openE = stats.OpenFinding("E-star-byte-prefers-catch-all")

// ExcludedE is the signature of open finding E: the request path contains '*' and the method has both a
// named parameter and a catch-all registered. While the finding is listed as open such requests are not judged.
func ExcludedE(path string, pats []string) bool {
	if !openE || !strings.Contains(path, "*") {
		return false
	}
	p, c := false, false
	for _, s := range pats {
		for _, w := range ref.Wildcards(s) {
			if w.CatchAll {
				c = true
			} else {
				p = true
			}
		}
	}
	return p && c
}

// Reverser is implemented by *fox.Router and *fox.Txn.
type Reverser interface {
	Reverse(method, host, path string) (*fox.Route, bool)
	Iter() fox.Iter
}

// IterReverseDiff compares Iter.Reverse over all methods of l at once (the documented idiom for "which methods serve this
// url") with Reverse asked method by method: a method is yielded, once, with the route Reverse finds for it, if that route
// matches directly or has a trailing-slash option enabled. It returns "" when they agree.
func IterReverseDiff(l Reverser, host, path string) string {
	it := l.Iter()
	want := map[string]string{}
	var methods []string
	for m := range it.Methods() {
		methods = append(methods, m)
		if rte, tsr := l.Reverse(m, host, path); rte != nil && (!tsr || rte.IgnoreTrailingSlashEnabled() || rte.RedirectTrailingSlashEnabled()) {
			want[m] = rte.Pattern()
		}
	}
	got := map[string]string{}
	for m, rte := range it.Reverse(it.Methods(), host, path) {
		if prev, dup := got[m]; dup {
			return fmt.Sprintf("Iter.Reverse(Iter.Methods(), %q, %q) yields method %s twice (%q, %q)", host, path, m, prev, rte.Pattern())
		}
		got[m] = rte.Pattern()
	}
	if len(got) != len(want) {
		return fmt.Sprintf("Iter.Reverse(Iter.Methods()=%v, host %q, path %q) yields %v; Reverse asked method by method finds %v", methods, host, path, got, want)
	}
	for m, p := range want {
		if got[m] != p {
			return fmt.Sprintf("Iter.Reverse(Iter.Methods()=%v, host %q, path %q) yields %v; Reverse asked method by method finds %v", methods, host, path, got, want)
		}
	}
	return ""
}
