// C05 — concurrent use is race-free and linearizable.
package c05

import (
	"encoding/json"
	"errors"
	"fmt"
	"iter"
	"net/http"
	"net/http/httptest"
	"os"
	"runtime"
	"runtime/debug"
	"slices"
	"sort"
	"strings"
	"sync"
	"sync/atomic"
	"testing"
	"time"

	"github.com/anishathalye/porcupine"
	"github.com/tigerwill90/fox"
	"pgregory.net/rapid"

	"verif/gen"
	"verif/hist"
	"verif/rt"
	"verif/stats"
)

func TestMain(m *testing.M) {
	stats.Init("C05")
	stats.RegisterReplay("atomic-move", func(raw json.RawMessage) error {
		var c MoveCase
		if err := json.Unmarshal(raw, &c); err != nil {
			return err
		}
		for i := 0; i < 5; i++ { // schedule-dependent: several attempts
			if err := checkMove(&c); err != nil {
				return err
			}
		}
		return nil
	})
	stats.RegisterReplay("concurrent-plan", func(raw json.RawMessage) error {
		var p Plan
		if err := json.Unmarshal(raw, &p); err != nil {
			return err
		}
		for i := 0; i < 5; i++ { // schedule-dependent: several attempts
			if err := run(&p, false); err != nil {
				return err
			}
		}
		return nil
	})
	os.Exit(stats.Finish(m.Run()))
}

func TestReplay(t *testing.T) { stats.RunReplays(t) }

// The keys: a handful of (method, pattern) pairs that share tree nodes. The first nTxn are only written
// inside stamped transactions, the rest only through the single-operation API.
type keySpec struct {
	Method, Pattern string
	Host, Path      string // a probe request that can only be served by this key or (when absent) by none / another key
}

var keys = []keySpec{
	{"GET", "/a", "", "/a"},
	{"GET", "/ab", "", "/ab"},
	{"GET", "/a/{p}", "", "/a/zz"},
	{"GET", "/a/b", "", "/a/b"},
	{"GET", "/abc/*{c}", "", "/abc/x/y"},
	{"GET", "h.example.com/a", "h.example.com", "/a"},
	// a fan of static siblings: inserts that sort before existing children of a node with spare slice capacity
	{"GET", "/k/d", "", "/k/d"},
	{"GET", "/k/c", "", "/k/c"},
	{"GET", "/k/b", "", "/k/b"},
	{"GET", "/k/a", "", "/k/a"},
	// an infix catch-all followed by a parameter: direct matches go through pooled sub-contexts
	{"GET", "/in/*{c}/m/{p}", "", "/in/x/y/m/z"},
	// the only route of a fixed verb: transactions may remove it with Truncate(PUT), which works on the per-method roots
	{"PUT", "/t", "", "/t"},
	// the only route of a verb without a root of its own in an empty router: the root comes with the first route and goes with
	// the last; a transaction that registers it twice (the second call refused as a duplicate) still registers it
	{"PATCH", "/t", "", "/t"},
	{"POST", "/a", "", "/a"},
	{"GET", "/a/{p}/c", "", "/a/zz/c"},
	{"GET", "{s}.example.org/a/b", "s1.example.org", "/a/b"},
}

const nTxn = 13
const infixKey = 10
const putKey = 11
const patchKey = 12

type KOp struct {
	Kind string `json:"kind"` // handle, update, delete
	Key  int    `json:"key"`
}

type WStep struct {
	Ops    []KOp `json:"ops"`
	Abort  bool  `json:"abort,omitempty"`  // the transaction function returns an error
	Single bool  `json:"single,omitempty"` // one operation through Router.Handle/Update/Delete on a single-op key
	// ViaRoute (single operations): the route is built first with Router.NewRoute and then registered or swapped in with
	// Router.HandleRoute / Router.UpdateRoute instead of Router.Handle / Router.Update
	ViaRoute bool `json:"via_route,omitempty"`
	Yield    bool `json:"yield,omitempty"`
	// Peek: the last thing the transaction function does before returning nil is to read its own state through an iterator
	// ("iter") or a snapshot ("snapshot"); the commit that follows must still publish every write.
	Peek string `json:"peek,omitempty"`
}

type RStep struct {
	Kind  string `json:"kind"` // has, route, serve, lookup, reverse, iter, view, version
	Key   int    `json:"key"`
	Yield bool   `json:"yield,omitempty"`
}

type Plan struct {
	Writers [][]WStep `json:"writers"`
	Readers [][]RStep `json:"readers"`
}

type annotKey struct{ name string }

var verKey, stampKey = annotKey{"version"}, annotKey{"stamp"}

// ---- recorded history ----

type kIn struct {
	Op  string // handle, update, delete, read
	Ver int64
}
type kOut struct {
	Res string // ok, exist, notfound
	Ver int64  // version observed (reads, delete)
}

type recorder struct {
	clock atomic.Int64
	mu    sync.Mutex
	ops   [][]porcupine.Operation // per key
	errs  []string
	// committed stamped transactions: stamp -> effects
	commits map[int64][]effect
	// snapshot observations: stamp + state of the txn keys
	snaps []snapObs
}

type effect struct {
	key int
	ver int64 // 0 = deleted
}

type snapObs struct {
	who   string
	stamp int64
	state [nTxn]int64
}

func (r *recorder) fail(format string, a ...any) {
	r.mu.Lock()
	if len(r.errs) < 6 {
		r.errs = append(r.errs, fmt.Sprintf(format, a...))
	}
	r.mu.Unlock()
}

func (r *recorder) add(client, key int, in kIn, out kOut, call, ret int64) {
	r.mu.Lock()
	r.ops[key] = append(r.ops[key], porcupine.Operation{ClientId: client, Input: in, Output: out, Call: call, Return: ret})
	r.mu.Unlock()
}

func verOf(rte *fox.Route) int64 {
	if rte == nil {
		return 0
	}
	v, _ := rte.Annotation(verKey).(int64)
	return v
}

var model = porcupine.Model{
	Init: func() interface{} { return int64(0) },
	Step: func(state, input, output interface{}) (bool, interface{}) {
		s, in, out := state.(int64), input.(kIn), output.(kOut)
		switch in.Op {
		case "handle":
			if out.Res == "ok" {
				return s == 0, in.Ver
			}
			return out.Res == "exist" && s != 0, s
		case "update":
			if out.Res == "ok" {
				return s != 0, in.Ver
			}
			return out.Res == "notfound" && s == 0, s
		case "delete":
			if out.Res == "ok" {
				return s != 0 && out.Ver == s, int64(0)
			}
			return out.Res == "notfound" && s == 0, s
		default: // read
			return out.Ver == s, s
		}
	},
	DescribeOperation: func(in, out interface{}) string { return fmt.Sprintf("%+v -> %+v", in, out) },
}

func class(err error) string {
	switch {
	case err == nil:
		return "ok"
	case errors.Is(err, fox.ErrRouteExist):
		return "exist"
	case errors.Is(err, fox.ErrRouteNotFound):
		return "notfound"
	}
	return "err:" + err.Error()
}

var verCounter atomic.Int64

func run(p *Plan, count bool) error {
	rec := &recorder{ops: make([][]porcupine.Operation, len(keys)), commits: map[int64][]effect{}}
	served := func(key int, ver int64) fox.HandlerFunc {
		return func(c fox.Context) {
			// the context is this request's own until the handler returns: what it tells must not change while other
			// requests are served
			pat, path, pars := c.Pattern(), c.Path(), fmt.Sprint(slices.Collect(c.Params()))
			runtime.Gosched()
			if p2, q2, r2 := c.Pattern(), c.Path(), fmt.Sprint(slices.Collect(c.Params())); p2 != pat || q2 != path || r2 != pars {
				rec.fail("handler of key %d: its context told pattern %q path %q params %s, and after yielding pattern %q path %q params %s", key, pat, path, pars, p2, q2, r2)
			}
			c.Writer().Header().Set("X-Key", fmt.Sprint(key))
			c.Writer().Header().Set("X-Ver", fmt.Sprint(ver))
			c.Writer().WriteHeader(200)
		}
	}
	f, err := fox.New()
	if err != nil {
		return nil
	}
	f.MustHandle("GET", "/__version", func(c fox.Context) { c.Writer().Header().Set("X-Stamp", "0") }, fox.WithAnnotation(stampKey, int64(0)))
	stampOf := func(rte *fox.Route) int64 {
		if rte == nil {
			return -1
		}
		v, _ := rte.Annotation(stampKey).(int64)
		return v
	}
	// Sequences obtained once from one iterator and then ranged over by every reader, possibly at the same time: an iterator
	// is a snapshot, so each traversal yields the same pairs. 24 routes of a method no writer touches give them a tree to walk.
	for i := 0; i < 24; i++ {
		f.MustHandle("SEQ", fmt.Sprintf("/s/%c/%c%d", 'a'+i%4, 'a'+i%6, i), func(fox.Context) {})
	}
	sharedIt := f.Iter()
	sharedSeqs := []iter.Seq2[string, *fox.Route]{sharedIt.All(), sharedIt.Prefix(slices.Values([]string{"SEQ", "GET"}), "/s/")}
	collectSeq := func(seq iter.Seq2[string, *fox.Route], yield bool) string {
		var sb strings.Builder
		for m, rte := range seq {
			sb.WriteString(m + " " + rte.Pattern() + ";")
			if yield {
				runtime.Gosched()
			}
		}
		return sb.String()
	}
	sharedWant := []string{collectSeq(sharedSeqs[0], false), collectSeq(sharedSeqs[1], false)}
	var wg sync.WaitGroup
	start := make(chan struct{})
	guard := func(who string) {
		if r := recover(); r != nil {
			rec.fail("%s: panic: %v\n%s", who, r, debug.Stack())
		}
		wg.Done()
	}
	// ---- writers ----
	for w, steps := range p.Writers {
		wg.Add(1)
		go func(w int, steps []WStep) {
			defer guard(fmt.Sprintf("writer %d", w))
			<-start
			for _, st := range steps {
				if st.Yield {
					runtime.Gosched()
				}
				if st.Single {
					op := st.Ops[0]
					k := keys[op.Key]
					ver := verCounter.Add(1)
					var rte *fox.Route
					var err error
					call := rec.clock.Add(1)
					var built *fox.Route
					if st.ViaRoute && op.Kind != "delete" {
						if built, err = f.NewRoute(k.Pattern, served(op.Key, ver), fox.WithAnnotation(verKey, ver)); err != nil {
							rec.fail("writer %d: NewRoute(%s) returned %v", w, k.Pattern, err)
							return
						}
					}
					werr, inconclusive := hist.Guarded(func() {
						switch {
						case op.Kind == "handle" && built != nil:
							err = f.HandleRoute(k.Method, built)
						case op.Kind == "update" && built != nil:
							err = f.UpdateRoute(k.Method, built)
						case op.Kind == "handle":
							_, err = f.Handle(k.Method, k.Pattern, served(op.Key, ver), fox.WithAnnotation(verKey, ver))
						case op.Kind == "update":
							_, err = f.Update(k.Method, k.Pattern, served(op.Key, ver), fox.WithAnnotation(verKey, ver))
						default:
							rte, err = f.Delete(k.Method, k.Pattern)
						}
					}, 30*time.Second)
					ret := rec.clock.Add(1)
					if werr != nil {
						hist.Inconclusive = hist.Inconclusive || inconclusive
						rec.fail("writer %d: %v", w, werr)
						return
					}
					res := class(err)
					if strings.HasPrefix(res, "err:") {
						rec.fail("writer %d: %s %s %s returned %v", w, op.Kind, k.Method, k.Pattern, err)
						return
					}
					rec.add(w, op.Key, kIn{Op: op.Kind, Ver: ver}, kOut{Res: res, Ver: verOf(rte)}, call, ret)
					continue
				}
				// a stamped transaction
				type pending struct {
					key int
					in  kIn
					out kOut
				}
				var done []pending
				var stamp int64
				call := rec.clock.Add(1)
				var uerr error
				werr, inconclusive := hist.Guarded(func() {
					uerr = f.Updates(func(txn *fox.Txn) error {
						done = done[:0]
						for _, op := range st.Ops {
							k := keys[op.Key]
							ver := verCounter.Add(1)
							var rte *fox.Route
							var err error
							switch op.Kind {
							case "handle":
								_, err = txn.Handle(k.Method, k.Pattern, served(op.Key, ver), fox.WithAnnotation(verKey, ver))
							case "update":
								_, err = txn.Update(k.Method, k.Pattern, served(op.Key, ver), fox.WithAnnotation(verKey, ver))
							case "truncate":
								// the key is the only route of its method: truncating the method is a delete of the key
								if rte = txn.Route(k.Method, k.Pattern); rte == nil {
									err = fox.ErrRouteNotFound
								}
								if terr := txn.Truncate(k.Method); terr != nil {
									err = terr
								}
								op.Kind = "delete"
							default:
								rte, err = txn.Delete(k.Method, k.Pattern)
							}
							res := class(err)
							if strings.HasPrefix(res, "err:") {
								return fmt.Errorf("unexpected: %w", err)
							}
							done = append(done, pending{op.Key, kIn{Op: op.Kind, Ver: ver}, kOut{Res: res, Ver: verOf(rte)}})
						}
						if st.Abort {
							return errors.New("planned abort")
						}
						cur := txn.Route("GET", "/__version")
						stamp = stampOf(cur) + 1
						s := stamp
						_, err := txn.Update("GET", "/__version", func(c fox.Context) { c.Writer().Header().Set("X-Stamp", fmt.Sprint(s)) }, fox.WithAnnotation(stampKey, s))
						if err != nil {
							return err
						}
						switch st.Peek {
						case "iter":
							seen := int64(-1)
							for _, r := range txn.Iter().All() {
								if r.Pattern() == "/__version" {
									seen = stampOf(r)
								}
							}
							if seen != s {
								return fmt.Errorf("the transaction's own iterator shows version %d after it wrote %d", seen, s)
							}
						case "snapshot":
							if seen := stampOf(txn.Snapshot().Route("GET", "/__version")); seen != s {
								return fmt.Errorf("the transaction's own snapshot shows version %d after it wrote %d", seen, s)
							}
						}
						return nil
					})
				}, 30*time.Second)
				ret := rec.clock.Add(1)
				if werr != nil {
					hist.Inconclusive = hist.Inconclusive || inconclusive
					rec.fail("writer %d: %v", w, werr)
					return
				}
				if st.Abort {
					if uerr == nil {
						rec.fail("writer %d: Updates swallowed the function's error", w)
					}
					continue // no effect, nothing recorded
				}
				if uerr != nil {
					rec.fail("writer %d: transaction failed: %v", w, uerr)
					return
				}
				var effs []effect
				for _, d := range done {
					rec.add(w, d.key, d.in, d.out, call, ret)
					if d.out.Res == "ok" {
						v := d.in.Ver
						if d.in.Op == "delete" {
							v = 0
						}
						effs = append(effs, effect{d.key, v})
					}
				}
				rec.mu.Lock()
				if _, dup := rec.commits[stamp]; dup {
					rec.errs = append(rec.errs, fmt.Sprintf("two committed transactions obtained stamp %d: a committed write was lost", stamp))
				}
				rec.commits[stamp] = effs
				rec.mu.Unlock()
			}
		}(w, steps)
	}
	// ---- readers ----
	for r, steps := range p.Readers {
		wg.Add(1)
		go func(r int, steps []RStep) {
			defer guard(fmt.Sprintf("reader %d", r))
			client := len(p.Writers) + r
			<-start
			last := int64(0)
			seeStamp := func(s int64, how string) {
				if s < last {
					rec.fail("reader %d observed version %d through %s after having observed version %d", r, s, how, last)
				}
				if s > last {
					last = s
				}
			}
			for _, st := range steps {
				if st.Yield {
					runtime.Gosched()
				}
				k := keys[st.Key]
				call := rec.clock.Add(1)
				switch st.Kind {
				case "has":
					has := f.Has(k.Method, k.Pattern)
					rte := (*fox.Route)(nil)
					_ = rte
					ret := rec.clock.Add(1)
					// Has only tells presence: record as a read of "some version" by re-reading the route is not atomic, so use Route below for versions
					if !has {
						rec.add(client, st.Key, kIn{Op: "read"}, kOut{Ver: 0}, call, ret)
					}
				case "route":
					rte := f.Route(k.Method, k.Pattern)
					rec.add(client, st.Key, kIn{Op: "read"}, kOut{Ver: verOf(rte)}, call, rec.clock.Add(1))
				case "reverse":
					rte, _ := f.Reverse(k.Method, k.Host, k.Path)
					ret := rec.clock.Add(1)
					v := int64(0)
					if rte != nil && rte.Pattern() == k.Pattern {
						v = verOf(rte)
					}
					rec.add(client, st.Key, kIn{Op: "read"}, kOut{Ver: v}, call, ret)
				case "iter-reverse", "iter-routes", "iter-prefix":
					// the iterator entry points, left early: the loop body returns false to the iterator after the first
					// pair, which is the other way out of its traversal
					it := f.Iter()
					v := int64(0)
					switch st.Kind {
					case "iter-reverse":
						for m, rte := range it.Reverse(it.Methods(), k.Host, k.Path) {
							if m == k.Method && rte.Pattern() == k.Pattern {
								v = verOf(rte)
							}
							break
						}
						if k.Method != "GET" { // GET is the first method root: only then is the first pair the key's own
							v = -1
						}
					case "iter-routes":
						for m, rte := range it.Routes(slices.Values([]string{k.Method, "GET"}), k.Pattern) {
							if m == k.Method {
								v = verOf(rte)
							}
							break
						}
					case "iter-prefix":
						v = -1
						for range it.Prefix(it.Methods(), k.Pattern[:len(k.Pattern)/2+1]) {
							break
						}
					}
					ret := rec.clock.Add(1)
					if v >= 0 {
						rec.add(client, st.Key, kIn{Op: "read"}, kOut{Ver: v}, call, ret)
					}
				case "shared-seq":
					i := st.Key % 2
					if got := collectSeq(sharedSeqs[i], true); got != sharedWant[i] {
						rec.fail("reader %d: ranging over a sequence of an iterator taken before any writer started yielded [%s], the same sequence yielded [%s] before", r, got, sharedWant[i])
					}
					rec.clock.Add(1)
				case "lookup":
					req := rt.NewRequest(rt.Req{Method: k.Method, Host: k.Host, Path: k.Path})
					rte, cc, tsr := f.Lookup(rt.Writer(&rt.NopWriter{H: http.Header{}}, req), req)
					ret := rec.clock.Add(1)
					v := int64(0)
					if rte != nil {
						if rte.Pattern() == k.Pattern && !tsr {
							v = verOf(rte)
						}
						cc.Close()
					}
					rec.add(client, st.Key, kIn{Op: "read"}, kOut{Ver: v}, call, ret)
				case "serve":
					w := httptest.NewRecorder()
					f.ServeHTTP(w, rt.NewRequest(rt.Req{Method: k.Method, Host: k.Host, Path: k.Path}))
					ret := rec.clock.Add(1)
					v := int64(0)
					if w.Code == 200 && w.Header().Get("X-Key") == fmt.Sprint(st.Key) {
						fmt.Sscan(w.Header().Get("X-Ver"), &v)
					}
					rec.add(client, st.Key, kIn{Op: "read"}, kOut{Ver: v}, call, ret)
				case "version":
					w := httptest.NewRecorder()
					f.ServeHTTP(w, httptest.NewRequest("GET", "/__version", nil))
					var s int64 = -1
					fmt.Sscan(w.Header().Get("X-Stamp"), &s)
					if s < 0 {
						rec.fail("reader %d: the version route answered %d without a stamp", r, w.Code)
					}
					seeStamp(s, "ServeHTTP")
				case "iter", "view", "rtxn-commit", "rtxn-abort":
					// one snapshot: the stamp and the state of every key must belong together
					var so snapObs
					so.who = fmt.Sprintf("reader %d %s", r, st.Kind)
					state := make([]int64, len(keys))
					if st.Kind == "iter" {
						it := f.Iter()
						so.stamp = -1
						for m, rte := range it.All() {
							if rte.Pattern() == "/__version" {
								so.stamp = stampOf(rte)
								continue
							}
							for i, kk := range keys {
								if kk.Method == m && kk.Pattern == rte.Pattern() {
									state[i] = verOf(rte)
								}
							}
						}
					} else if st.Kind == "rtxn-commit" || st.Kind == "rtxn-abort" {
						// a read-only transaction held over a scheduling point and then ended with Commit or Abort, both
						// documented as doing nothing for a read transaction: whatever writers committed meanwhile stays
						txn := f.Txn(false)
						so.stamp = stampOf(txn.Route("GET", "/__version"))
						for i, kk := range keys {
							state[i] = verOf(txn.Route(kk.Method, kk.Pattern))
						}
						runtime.Gosched()
						if again := stampOf(txn.Route("GET", "/__version")); again != so.stamp {
							rec.fail("%s: the version seen through one read-only transaction changed from %d to %d", so.who, so.stamp, again)
						}
						// the same question asked as a request look-up through the transaction
						vreq := httptest.NewRequest("GET", "/__version", nil)
						if lr, cc, _ := txn.Lookup(fox.NewTestContextOnly(httptest.NewRecorder(), vreq).Writer(), vreq); lr == nil || stampOf(lr) != so.stamp {
							rec.fail("%s: Txn.Lookup of the version route through a read-only transaction finds version %d, Txn.Route found %d", so.who, stampOf(lr), so.stamp)
						} else {
							cc.Close()
						}
						// reverse look-ups through the transaction before and after it is ended (ending a read transaction
						// changes nothing, it stays usable), and ending it twice
						if rte, _ := txn.Reverse("GET", "", "/__version"); stampOf(rte) != so.stamp {
							rec.fail("%s: Txn.Reverse sees version %d, Txn.Route saw %d through the same read-only transaction", so.who, stampOf(rte), so.stamp)
						}
						for i := 0; i < 2; i++ {
							if st.Kind == "rtxn-commit" {
								txn.Commit()
							} else {
								txn.Abort()
							}
							if rte, _ := txn.Reverse("GET", "", "/__version"); stampOf(rte) != so.stamp {
								rec.fail("%s: after ending the read-only transaction Txn.Reverse sees version %d, it saw %d before", so.who, stampOf(rte), so.stamp)
							}
						}
					} else {
						_ = f.View(func(txn *fox.Txn) error {
							so.stamp = stampOf(txn.Route("GET", "/__version"))
							for i, kk := range keys {
								state[i] = verOf(txn.Route(kk.Method, kk.Pattern))
							}
							return nil
						})
					}
					ret := rec.clock.Add(1)
					if so.stamp < 0 {
						rec.fail("%s: the version route is missing from the snapshot", so.who)
						continue
					}
					copy(so.state[:], state[:nTxn])
					seeStamp(so.stamp, st.Kind)
					for i := range keys {
						rec.add(client, i, kIn{Op: "read"}, kOut{Ver: state[i]}, call, ret)
					}
					rec.mu.Lock()
					rec.snaps = append(rec.snaps, so)
					rec.mu.Unlock()
				}
			}
		}(r, steps)
	}
	close(start)
	wg.Wait()
	if len(rec.errs) > 0 {
		return fmt.Errorf("%s", strings.Join(rec.errs, "\n  also: "))
	}
	// ---- (3) stamps are 1..N without gaps; the state after every stamp; snapshots and the final tree agree with it
	n := int64(len(rec.commits))
	stateAt := make([][nTxn]int64, n+1)
	for s := int64(1); s <= n; s++ {
		effs, ok := rec.commits[s]
		if !ok {
			var have []int64
			for k := range rec.commits {
				have = append(have, k)
			}
			sort.Slice(have, func(i, j int) bool { return have[i] < have[j] })
			return fmt.Errorf("%d transactions committed but their stamps are %v: a committed write was lost or applied twice", n, have)
		}
		stateAt[s] = stateAt[s-1]
		for _, e := range effs {
			if e.key < nTxn {
				stateAt[s][e.key] = e.ver
			}
		}
	}
	for _, so := range rec.snaps {
		if so.stamp > n {
			return fmt.Errorf("%s saw version %d but only %d transactions committed", so.who, so.stamp, n)
		}
		if so.state != stateAt[so.stamp] {
			return fmt.Errorf("%s saw version %d together with key versions %v; after the commit with that version the keys were %v (a snapshot mixing two committed states)", so.who, so.stamp, so.state, stateAt[so.stamp])
		}
	}
	if got := stampOf(f.Route("GET", "/__version")); got != n {
		return fmt.Errorf("final version is %d, %d transactions committed", got, n)
	}
	for i := 0; i < nTxn; i++ {
		if got := verOf(f.Route(keys[i].Method, keys[i].Pattern)); got != stateAt[n][i] {
			return fmt.Errorf("final state of %s %s is version %d, applying the committed writes in order gives %d", keys[i].Method, keys[i].Pattern, got, stateAt[n][i])
		}
	}
	// ---- (2) per-key linearizability
	overlap := 0
	for i, ops := range rec.ops {
		// the final read closes the history of every key
		end := rec.clock.Add(1)
		ops = append(ops, porcupine.Operation{ClientId: 0, Input: kIn{Op: "read"}, Output: kOut{Ver: verOf(f.Route(keys[i].Method, keys[i].Pattern))}, Call: end, Return: end + 1})
		res, info := porcupine.CheckOperationsVerbose(model, ops, 20*time.Second)
		_ = info
		switch res {
		case porcupine.Illegal:
			return fmt.Errorf("the history of %s %s (%d operations) is not linearizable: %s", keys[i].Method, keys[i].Pattern, len(ops), describe(ops))
		case porcupine.Unknown:
			if count {
				stats.Excluded("linearizability search timed out for one key (inconclusive, not a violation)")
			}
		}
		sort.Slice(ops, func(a, b int) bool { return ops[a].Call < ops[b].Call })
		for j := 1; j < len(ops); j++ {
			if ops[j].Call < ops[j-1].Return && (ops[j].Input.(kIn).Op != "read" || ops[j-1].Input.(kIn).Op != "read") {
				overlap++
			}
		}
	}
	if count {
		stats.ClassN("operations-recorded", func() int {
			t := 0
			for _, o := range rec.ops {
				t += len(o)
			}
			return t
		}())
		stats.ClassN("committed-transactions", int(n))
		stats.ClassN("snapshot-observations", len(rec.snaps))
		stats.ClassN("overlapping-write/other-pairs-on-a-key", overlap)
		if overlap >= 1 {
			stats.Class("plans-with-overlap")
		}
	}
	lastOverlap = overlap
	return nil
}

var lastOverlap int

func describe(ops []porcupine.Operation) string {
	sort.Slice(ops, func(a, b int) bool { return ops[a].Call < ops[b].Call })
	var sb strings.Builder
	for i, o := range ops {
		if i > 60 {
			sb.WriteString(" ...")
			break
		}
		fmt.Fprintf(&sb, " [%d,%d]c%d:%+v->%+v", o.Call, o.Return, o.ClientId, o.Input, o.Output)
	}
	return sb.String()
}

func genPlan(t *rapid.T) *Plan {
	p := &Plan{}
	nw := gen.IntR(t, 1, 4, "writers")
	nr := gen.IntR(t, 1, 6, "readers")
	wlen := gen.IntR(t, 10, 80, "wlen")
	rlen := gen.IntR(t, 20, 200, "rlen")
	for w := 0; w < nw; w++ {
		var steps []WStep
		for i := 0; i < wlen; i++ {
			st := WStep{Yield: gen.Chance(t, 1, 4, "yield")}
			if gen.Chance(t, 1, 4, "single") {
				st.Single = true
				st.ViaRoute = gen.Chance(t, 1, 3, "viaroute")
				st.Ops = []KOp{{Kind: gen.Pick(t, []string{"handle", "update", "delete"}, "kind"), Key: gen.IntR(t, nTxn, len(keys)-1, "skey")}}
			} else {
				n := gen.IntR(t, 1, 3, "nops")
				for j := 0; j < n; j++ {
					ko := KOp{Kind: gen.Pick(t, []string{"handle", "handle", "update", "delete"}, "kind"), Key: gen.IntR(t, 0, nTxn-1, "tkey")}
					if (ko.Key == putKey || ko.Key == patchKey) && ko.Kind == "delete" && gen.Chance(t, 2, 3, "truncate") {
						ko.Kind = "truncate"
					}
					st.Ops = append(st.Ops, ko)
				}
				if gen.Chance(t, 1, 8, "twice") {
					// register-if-absent written the easy way: the same registration twice, the second refused
					st.Ops = []KOp{{Kind: "handle", Key: patchKey}, {Kind: "handle", Key: patchKey}}
				}
				st.Abort = gen.Chance(t, 1, 6, "abort")
				st.Peek = gen.Pick(t, []string{"", "", "", "iter", "snapshot"}, "peek")
			}
			steps = append(steps, st)
		}
		if w == 0 {
			// the infix route exists from the start in most plans
			steps = append([]WStep{{Ops: []KOp{{Kind: "handle", Key: infixKey}}}}, steps...)
		}
		p.Writers = append(p.Writers, steps)
	}
	for r := 0; r < nr; r++ {
		var steps []RStep
		for i := 0; i < rlen; i++ {
			st := RStep{Kind: gen.Pick(t, []string{"has", "route", "serve", "lookup", "reverse", "iter", "view", "version", "iter-reverse", "iter-routes", "iter-prefix", "rtxn-commit", "rtxn-abort", "shared-seq"}, "rkind"), Key: gen.IntR(t, 0, len(keys)-1, "rkey"), Yield: gen.Chance(t, 1, 5, "yield")}
			if gen.Chance(t, 1, 4, "infix") {
				// requests that go through pooled sub-contexts (infix catch-all), concurrently from several readers
				st.Kind, st.Key = gen.Pick(t, []string{"serve", "lookup"}, "ikind"), infixKey
			}
			steps = append(steps, st)
		}
		p.Readers = append(p.Readers, steps)
	}
	return p
}

func TestPlans(t *testing.T) {
	rapid.Check(t, func(t *rapid.T) {
		p := genPlan(t)
		nops := 0
		for _, w := range p.Writers {
			nops += len(w)
		}
		for _, r := range p.Readers {
			nops += len(r)
		}
		stats.EvalN(nops) // evaluations = planned operations
		if err := run(p, true); err != nil {
			stats.Fail("concurrent-plan", p, "%v", err)
			t.Fatalf("%v", err)
		}
		if lastOverlap > 0 {
			b, _ := json.Marshal(p)
			stats.NonTrivial(string(b))
		}
		stats.Sample(map[string]any{"writers": len(p.Writers), "readers": len(p.Readers), "first_writer_steps": p.Writers[0][:min(4, len(p.Writers[0]))], "first_reader_steps": p.Readers[0][:min(6, len(p.Readers[0]))]})
	})
}

// ---- a request is routed against one committed version: a route moved between two methods by one transaction ----

// MoveCase: a writer moves the route /mv back and forth between the methods ZZZ and GET, one transaction per move, while
// readers request it. Every committed version answers GET /mv with 200 (route under GET) or with 405 and Allow: ZZZ (route
// under ZZZ), and POST /mv with 405 and an Allow header naming exactly one of the two: any other answer mixes two versions.
type MoveCase struct {
	Fillers int `json:"fillers"` // other custom methods registered before ZZZ (they lengthen the per-method part of a 405 answer)
	Readers int `json:"readers"`
	Toggles int `json:"toggles"`
}

func checkMove(c *MoveCase) error {
	f, err := fox.New(fox.WithNoMethod(true))
	if err != nil {
		return nil
	}
	h := func(fc fox.Context) { fc.Writer().WriteHeader(http.StatusOK) }
	for i := 0; i < c.Fillers; i++ {
		f.MustHandle(fmt.Sprintf("M%c%c", 'A'+i/26, 'A'+i%26), "/filler", h)
	}
	f.MustHandle("ZZZ", "/keep", h)
	f.MustHandle("ZZZ", "/mv", h)
	var done atomic.Bool
	var wg sync.WaitGroup
	var mu sync.Mutex
	var bad []string
	var served atomic.Int64
	fail := func(format string, a ...any) {
		mu.Lock()
		if len(bad) < 3 {
			bad = append(bad, fmt.Sprintf(format, a...))
		}
		mu.Unlock()
	}
	for r := 0; r < c.Readers; r++ {
		wg.Add(1)
		go func(r int) {
			defer wg.Done()
			defer func() {
				if p := recover(); p != nil {
					fail("reader %d: panic: %v", r, p)
				}
			}()
			for i := 0; !done.Load() || i < 50; i++ {
				method := "GET"
				if (i+r)%3 == 0 {
					method = "POST"
				}
				w := httptest.NewRecorder()
				f.ServeHTTP(w, httptest.NewRequest(method, "/mv", nil))
				served.Add(1)
				allow := w.Header().Get("Allow")
				switch {
				case method == "GET" && w.Code == http.StatusOK:
				case method == "GET" && w.Code == http.StatusMethodNotAllowed && allow == "ZZZ":
				case method == "POST" && w.Code == http.StatusMethodNotAllowed && (allow == "ZZZ" || allow == "GET"):
				default:
					fail("%s /mv answered %d with Allow %q while one transaction per move puts the route under ZZZ or under GET: no committed version gives this answer", method, w.Code, allow)
					return
				}
			}
		}(r)
	}
	var werr error
	for i := 0; i < c.Toggles && werr == nil; i++ {
		from, to := "ZZZ", "GET"
		if i%2 == 1 {
			from, to = "GET", "ZZZ"
		}
		werr = f.Updates(func(txn *fox.Txn) error {
			if _, err := txn.Delete(from, "/mv"); err != nil {
				return err
			}
			_, err := txn.Handle(to, "/mv", h)
			return err
		})
	}
	done.Store(true)
	wg.Wait()
	stats.EvalN(int(served.Load()))
	if werr != nil {
		return fmt.Errorf("moving /mv between methods failed: %v", werr)
	}
	if len(bad) > 0 {
		return fmt.Errorf("%s", strings.Join(bad, "; "))
	}
	return nil
}

func TestAtomicMove(t *testing.T) {
	rapid.Check(t, func(t *rapid.T) {
		c := &MoveCase{Fillers: gen.Pick(t, []int{0, 5, 40}, "fillers"), Readers: gen.IntR(t, 2, 8, "readers"), Toggles: gen.Pick(t, []int{200, 1000, 3000}, "toggles")}
		stats.Sample(c)
		stats.Class(fmt.Sprintf("atomic-move:fillers=%d", c.Fillers))
		stats.NonTrivial(fmt.Sprintf("move|%+v", *c))
		if err := checkMove(c); err != nil {
			stats.Fail("atomic-move", c, "%v", err)
			t.Fatalf("%v", err)
		}
	})
}
