_ENV = {"GORACE": "halt_on_error=0"}
ENTRY = {
    "C05": dict(
        pkg="c05", level="exploration",
        technique="seeded concurrent plans run under the race detector with history checking: per-key linearizability (porcupine), a version-stamp total order, snapshot consistency and monotonic reads",
        level_text="Generated plans for 1-4 writers (single operations and 1-3 operation transactions, commits and planned aborts, over nine keys that share tree nodes, "
                   "hostname and path-only) and 1-6 readers (Has, Route, Reverse, Lookup, ServeHTTP, Iter pass, View, version reads) run on all cores under -race with "
                   "GOMAXPROCS 2, 4 and 16. Every committed transaction also bumps a version route inside the same transaction; afterwards: stamps are exactly 1..N "
                   "(nothing lost or doubled), the final tree equals the writes applied in stamp order, every Iter pass / View saw exactly the state of one stamp, each "
                   "reader's observed versions never decrease, and the invocation/response history of every key is linearizable against an absent|present(version) register.",
        level_note="Schedules are sampled, not enumerated: the scheduler is not under the harness's control. A linearizability search that times out is inconclusive and counted, never a violation.",
        level_more='Later additions: read-only transactions held over scheduling points, ended twice and used afterwards (Reverse, Lookup), shared iterator sequences, a PATCH key whose verb root comes and goes, and transactions that register the same route twice (second call refused).',
        rule="cases: concurrent plans; non-trivial = at least one pair of operations on the same key (one of them a write) overlapped in time; distinct by plan",
        assumptions=["logical clock = shared atomic counter read before the call and after the return", "route handlers and annotations carry the version of the registration"],
        quick=[REPLAY,
               R("plans-p4", "^TestPlans$", checks=40, race=True, gomaxprocs=4, env=_ENV, timeout=600),
               R("plans-p16", "^TestPlans$", checks=40, race=True, gomaxprocs=16, env=_ENV, timeout=600),
               R("plans-p2", "^TestPlans$", checks=30, race=True, gomaxprocs=2, env=_ENV, timeout=600),
               R("atomic-move", "^TestAtomicMove$", checks=6, race=True, env=_ENV, timeout=600)],
        thorough=[REPLAY,
                  R("plans-p4", "^TestPlans$", checks=300, race=True, gomaxprocs=4, shards=4, env=_ENV, timeout=3000),
                  R("plans-p16", "^TestPlans$", checks=300, race=True, gomaxprocs=16, shards=3, env=_ENV, timeout=3000),
                  R("plans-p2", "^TestPlans$", checks=300, race=True, gomaxprocs=2, shards=6, env=_ENV, timeout=3000),
                  R("atomic-move", "^TestAtomicMove$", checks=30, race=True, shards=4, env=_ENV, timeout=3000)],
        replay_race=True,
    ),
}
