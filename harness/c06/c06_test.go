// C06 — reads never wait for writers.
package c06

import (
	"bytes"
	"encoding/json"
	"errors"
	"fmt"
	"net"
	"net/http"
	"net/http/httptest"
	"os"
	"path/filepath"
	"reflect"
	"runtime"
	"runtime/pprof"
	"slices"
	"strings"
	"sync"
	"sync/atomic"
	"testing"
	"time"

	"github.com/tigerwill90/fox"
	"pgregory.net/rapid"

	"verif/gen"
	"verif/rt"
	"verif/stats"
)

func TestMain(m *testing.M) {
	stats.Init("C06")
	stats.RegisterReplay("parked-writer", func(raw json.RawMessage) error {
		var c Case
		if err := json.Unmarshal(raw, &c); err != nil {
			return err
		}
		return checkCase(&c, false)
	})
	stats.RegisterReplay("block-profile", func(raw json.RawMessage) error {
		var c struct {
			Millis int `json:"millis"`
		}
		_ = json.Unmarshal(raw, &c)
		return blockProfile(time.Duration(max(c.Millis, 1500)) * time.Millisecond)
	})
	os.Exit(stats.Finish(m.Run()))
}

func TestReplay(t *testing.T) { stats.RunReplays(t) }

// Case: router options x the stage at which a write transaction is parked.
type Case struct {
	Stage       string `json:"stage"` // opened, after-writes, inside-updates, after-iter, after-snapshot
	Writes      int    `json:"writes"`
	TS          int    `json:"ts"`
	NoMethod    bool   `json:"no_method"`
	AutoOptions bool   `json:"auto_options"`
	Resolver    bool   `json:"resolver"`
	Middleware  int    `json:"middleware"`
	Hostnames   bool   `json:"hostnames"`
	// Deep adds that many routes nested as prefixes of each other ("/deep/z", "/deep/zz", ...) and as many siblings:
	// read paths size their scratch space from the depth and width of the tree, so shape is part of the configuration.
	Deep int `json:"deep,omitempty"`
	// Empty: the committed tree holds no route at all when the writer opens its transaction ("fresh": nothing was ever
	// registered, "truncated": everything was registered and then removed by a committed Truncate)
	Empty string `json:"empty,omitempty"`
	// Verbs: that many verbs other than GET/POST/PUT/DELETE have routes in the committed tree (their roots come and go with
	// their routes, unlike the four that always have one)
	Verbs int `json:"verbs,omitempty"`
	// Refused: the last writes before the parked writer opens its transaction were refused or given up (a duplicate
	// registration, a delete of an unknown route, an Updates function returning an error, an aborted transaction)
	Refused bool `json:"refused,omitempty"`
}

var stages = []string{"opened", "after-writes", "inside-updates", "after-iter", "after-snapshot"}

type read struct {
	name string
	fn   func()
}

var inconclusive bool

// reads lists every read entry point, each against the given router.
func reads(f *fox.Router, host string) []read {
	h := func(fox.Context) {}
	serve := func(method, path string) func() {
		return func() {
			req := httptest.NewRequest(method, "http://"+host+path, nil)
			f.ServeHTTP(httptest.NewRecorder(), req)
		}
	}
	lookupReq := func() (*http.Request, fox.ResponseWriter) {
		req := httptest.NewRequest("GET", "http://"+host+"/r/1/x", nil)
		return req, rt.Writer(httptest.NewRecorder(), req)
	}
	ms := []string{"GET", "POST"}
	all := []read{
		{"ServeHTTP direct", serve("GET", "/r/1/x")},
		{"ServeHTTP static", serve("GET", "/static")},
		{"ServeHTTP catch-all", serve("GET", "/files/a/b/c")},
		{"ServeHTTP ignored trailing slash", serve("GET", "/ign/1/")},
		{"ServeHTTP redirect", serve("GET", "/red/1")},
		{"ServeHTTP 404", serve("GET", "/nothing/at/all")},
		{"ServeHTTP 405-or-404", serve("PUT", "/static")},
		{"ServeHTTP OPTIONS", serve("OPTIONS", "/static")},
		{"ServeHTTP OPTIONS *", func() {
			req := httptest.NewRequest("OPTIONS", "http://"+host+"/", nil)
			req.URL.Path = "*"
			f.ServeHTTP(httptest.NewRecorder(), req)
		}},
		{"Router.Lookup", func() {
			req, w := lookupReq()
			if _, cc, _ := f.Lookup(w, req); cc != nil {
				_ = cc.Clone()
				cc.Close()
			}
		}},
		{"Router.Reverse", func() { f.Reverse("GET", host, "/r/1/x") }},
		{"Router.Reverse trailing slash", func() { f.Reverse("GET", host, "/ign/1/") }},
		{"Router.Reverse no match", func() { f.Reverse("GET", host, "/nothing/at/all") }},
		{"Router.Reverse unknown method", func() { f.Reverse("BREW", host, "/static") }},
		{"Router.Lookup trailing slash / none / catch-all", func() {
			for _, p := range []string{"/red/1", "/ign/1/", "/nothing/at/all", "/files/a/b"} {
				req := httptest.NewRequest("GET", "http://"+host+p, nil)
				if _, cc, _ := f.Lookup(rt.Writer(httptest.NewRecorder(), req), req); cc != nil {
					cw := cc.CloneWith(cc.Writer(), cc.Request())
					cw.Close()
					cc.Close()
				}
			}
		}},
		{"Router.Has missing / invalid", func() { f.Has("GET", "/missing/{x}"); f.Has("GET", "not a pattern"); f.Route("BREW", "/static") }},
		{"Router.Has", func() { f.Has("GET", "/r/{id}/x") }},
		{"Router.Has / Route / Iter.Routes on every proper prefix of a registered pattern (ends inside an edge or on a node without route)", func() {
			for _, p := range []string{"/r/{id}/x", "/static", "/files/*{path}", "/ix/*{any}/bar/ab", "/red/{id}/", "/wide/a0", "/deep/zz",
				"{sub}.example.com/r/{id}/x", "{sub}.example.com/static", "{sub}.example.com/ix/*{any}/bar/ab", "other.example.com/static"} {
				for i := 1; i < len(p); i++ {
					f.Has("GET", p[:i])
					f.Route("GET", p[:i])
				}
				it := f.Iter()
				for range it.Routes(it.Methods(), p[:len(p)-1]) {
				}
			}
		}},
		{"Router.Route", func() { f.Route("POST", "/static") }},
		{"Router.Len", func() { f.Len() }},
		{"Router.Stats", func() { f.Stats() }},
		{"Router.NewRoute", func() { _, _ = f.NewRoute("/fresh/{a}", h) }},
		{"Router.Iter.Methods", func() {
			for range f.Iter().Methods() {
			}
		}},
		{"Router.Iter.All", func() {
			for range f.Iter().All() {
			}
		}},
		{"Router.Iter.Prefix", func() {
			it := f.Iter()
			for range it.Prefix(it.Methods(), "/r") {
			}
		}},
		{"Router.Iter.Prefix deep", func() {
			it := f.Iter()
			for range it.Prefix(it.Methods(), "/deep/zz") {
			}
			for range it.Prefix(slices.Values(ms), "/wide") {
				break
			}
		}},
		{"ServeHTTP deep", serve("GET", "/deep/"+strings.Repeat("z", 30)+"/v/yyy")},
		{"ServeHTTP infix catch-all", serve("GET", "/ix/x/y/bar/a")},
		{"Router.Reverse infix catch-all", func() { f.Reverse("GET", host, "/ix/x/bar/b/1") }},
		{"Router.Iter.Routes", func() {
			for range f.Iter().Routes(slices.Values(ms), "/static") {
			}
		}},
		{"Router.Iter.Reverse", func() {
			for range f.Iter().Reverse(slices.Values(ms), host, "/ign/1/") {
			}
		}},
		{"Router.View", func() {
			_ = f.View(func(txn *fox.Txn) error {
				txn.Has("GET", "/static")
				txn.Route("GET", "/r/{id}/x")
				txn.Reverse("GET", host, "/r/1/x")
				txn.Len()
				for range txn.Iter().All() {
				}
				req, w := lookupReq()
				if _, cc, _ := txn.Lookup(w, req); cc != nil {
					cc.Close()
				}
				return nil
			})
		}},
		{"read-only Txn + Snapshot", func() {
			txn := f.Txn(false)
			defer txn.Abort()
			txn.Has("GET", "/static")
			snap := txn.Snapshot()
			snap.Has("GET", "/static")
			snap.Len()
			for range snap.Iter().Methods() {
			}
			snap.Abort()
			txn.Commit()
		}},
		{"write attempt through a read-only Txn", func() {
			txn := f.Txn(false)
			_, _ = txn.Handle("GET", "/x", h)
			_ = txn.Truncate()
			txn.Abort()
		}},
	}
	return all
}

func build(c *Case) (*fox.Router, error) {
	h := func(ctx fox.Context) { ctx.Writer().WriteHeader(200) }
	var opts []fox.GlobalOption
	switch c.TS {
	case rt.TSIgnore:
		opts = append(opts, fox.WithIgnoreTrailingSlash(true))
	case rt.TSRedirect:
		opts = append(opts, fox.WithRedirectTrailingSlash(true))
	}
	if c.NoMethod {
		opts = append(opts, fox.WithNoMethod(true))
	}
	if c.AutoOptions {
		opts = append(opts, fox.WithAutoOptions(true))
	}
	if c.Resolver {
		opts = append(opts, fox.WithClientIPResolver(fox.ClientIPResolverFunc(func(c fox.Context) (*net.IPAddr, error) { return c.RemoteIP(), nil })))
	}
	for i := 0; i < c.Middleware; i++ {
		opts = append(opts, fox.WithMiddleware(func(next fox.HandlerFunc) fox.HandlerFunc {
			return func(ctx fox.Context) { _, _ = ctx.ClientIP(); next(ctx) }
		}))
	}
	f, err := fox.New(opts...)
	if err != nil {
		return nil, err
	}
	if c.Empty == "fresh" {
		return f, nil
	}
	if c.Empty == "truncated" {
		defer func() {
			_ = f.Updates(func(txn *fox.Txn) error { return txn.Truncate() })
		}()
	}
	if c.Empty == "partly" {
		// one method with routes removed by a committed Truncate(method), other methods keep theirs
		defer func() {
			_ = f.Updates(func(txn *fox.Txn) error { return txn.Truncate("POST", "BREW") })
		}()
	}
	pre := ""
	if c.Hostnames {
		pre = "{sub}.example.com"
		f.MustHandle("GET", "other.example.com/static", h)
	}
	for _, v := range []string{"PATCH", "HEAD", "PROPFIND"}[:min(c.Verbs, 3)] {
		f.MustHandle(v, pre+"/static", h)
		f.MustHandle(v, pre+"/r/{id}/x", h)
	}
	f.MustHandle("GET", pre+"/r/{id}/x", h)
	f.MustHandle("GET", pre+"/static", h)
	f.MustHandle("POST", pre+"/static", h)
	f.MustHandle("GET", pre+"/files/*{path}", h)
	f.MustHandle("GET", pre+"/ign/{id}", h, fox.WithIgnoreTrailingSlash(true))
	f.MustHandle("GET", pre+"/red/{id}/", h, fox.WithRedirectTrailingSlash(true))
	// an infix catch-all node with routes below it; a later committed write that passes through it leaves a copy of the node
	// in the published tree (whatever such a copy builds lazily, it builds during a read)
	f.MustHandle("GET", pre+"/ix/*{any}/bar/a", h)
	f.MustHandle("GET", pre+"/ix/*{any}/bar/b/{p}", h)
	f.MustHandle("GET", pre+"/ix/*{any}/bar/ab", h)
	_, _ = f.Update("GET", pre+"/ix/*{any}/bar/b/{p}", h)
	for i := 1; i <= c.Deep; i++ {
		f.MustHandle("GET", pre+"/deep/"+strings.Repeat("z", i), h)
		f.MustHandle("GET", pre+"/deep/"+strings.Repeat("z", i)+"/{p}/"+strings.Repeat("y", i%7+1), h)
		f.MustHandle("GET", pre+fmt.Sprintf("/wide/%c%d", 'a'+i%26, i), h)
	}
	return f, nil
}

// waitAll waits for the reads; on expiry the goroutine dump decides.
func waitAll(done []chan struct{}, names []string, desc string) error {
	return waitFor(done, names, desc, "read", "while the write transaction was held open", "reader")
}

// waitFor waits for the goroutines started through runRead; one that does not finish is a violation only when its stack
// shows it waiting on a sync/channel primitive called directly from fox.
func waitFor(done []chan struct{}, names []string, desc, what, when, who string) error {
	deadline := time.After(20 * time.Second)
	for i, d := range done {
		select {
		case <-d:
		case <-deadline:
			buf := make([]byte, 4<<20)
			buf = buf[:runtime.Stack(buf, true)]
			var pending []string
			for _, g := range strings.Split(string(buf), "\n\n") {
				if !strings.Contains(g, "c06.runRead") {
					continue
				}
				pending = append(pending, g)
				if blockedInFox(g) {
					return fmt.Errorf("%s: %s %q did not complete %s; a %s goroutine is blocked inside fox:\n%s", desc, what, names[i], when, who, g)
				}
			}
			inconclusive = true
			stats.MarkInconclusive(what + "s did not complete in time but no " + who + " is blocked inside fox")
			return fmt.Errorf("%s: %s %q did not complete within 20s but no %s is blocked inside fox (inconclusive); pending:\n%s", desc, what, names[i], who, strings.Join(pending, "\n\n"))
		}
	}
	return nil
}

var waitPrims = []string{"sync.(*Mutex).Lock", "sync.(*RWMutex).Lock", "sync.(*RWMutex).RLock", "sync.(*WaitGroup).Wait", "sync.(*Cond).Wait", "runtime.chanrecv", "runtime.chansend", "runtime.selectgo", "sync.runtime_Semacquire"}

// blockedInFox: the goroutine's stack shows a fox (root package) frame directly calling a sync/channel wait.
func blockedInFox(g string) bool {
	lines := strings.Split(g, "\n")
	var frames, files []string
	for _, l := range lines[1:] {
		if l == "" {
			continue
		}
		if strings.HasPrefix(l, "\t") {
			if len(files) < len(frames) {
				files = append(files, strings.TrimSpace(l))
			}
			continue
		}
		for len(files) < len(frames) {
			files = append(files, "")
		}
		frames = append(frames, l)
	}
	for len(files) < len(frames) {
		files = append(files, "")
	}
	for i, fr := range frames {
		for _, p := range waitPrims {
			if strings.HasPrefix(fr, p) {
				// next non-runtime, non-sync-internal frame
				for j := i + 1; j < len(frames); j++ {
					if strings.HasPrefix(frames[j], "sync.") || strings.HasPrefix(frames[j], "runtime.") || strings.HasPrefix(frames[j], "internal/") {
						if strings.HasPrefix(frames[j], "sync.(*Pool)") {
							break // sync.Pool internals are not fox's waiting
						}
						continue
					}
					return foxFrame(frames[j], files[j])
				}
			}
		}
	}
	return false
}

// foxDir is the directory the router's sources were compiled from.
var foxDir = func() string {
	f := runtime.FuncForPC(reflect.ValueOf(fox.DefaultNotFoundHandler).Pointer())
	if f == nil {
		return "\x00"
	}
	file, _ := f.FileLine(f.Entry())
	return filepath.Dir(file) + "/"
}()

// foxFrame: the frame is code of the router. An iterator closure inlined into its caller carries the caller's package in
// its name (verif/c06.reads.func18.Iter.All.1.Iter.Prefix.3), so the source file decides as well as the name.
func foxFrame(fn, file string) bool {
	return strings.HasPrefix(fn, "github.com/tigerwill90/fox.") || strings.HasPrefix(file, foxDir)
}

func runRead(fn func(), done chan struct{}) {
	defer close(done)
	defer func() { _ = recover() }()
	fn()
}

func checkCase(c *Case, count bool) error {
	f, err := build(c)
	if err != nil {
		return nil
	}
	host := "example.com"
	if c.Hostnames {
		host = "api.example.com"
	}
	desc := fmt.Sprintf("options %+v, write transaction parked at stage %q", *c, c.Stage)
	h := func(fox.Context) {}
	parked := make(chan struct{})
	release := make(chan struct{})
	writerDone := make(chan struct{})
	var snap *fox.Txn // a read-only snapshot of the parked write transaction, read by other goroutines while it stays parked
	// views pinned to the tree as it is now, then a commit that makes the live tree bigger in every dimension (more
	// parameters, deeper): reads through the old views, whose tree never served anything, run while the writer is parked
	old, oldIt := f.Txn(false), f.Iter()
	defer old.Abort()
	if c.Empty == "" { // the cases about an empty committed tree keep it empty
		_, _ = f.Handle("GET", "/grown/{a}/{b}/{c}/{d}/{e}/{f}/{g}/{h}/{i}/{j}/{k}/{l}/x/y/z/w/v", h)
		_, _ = f.Handle("GET", "/grown/{a}/{b}/{c}/{d}/{e}/{f}/{g}/{h}/{i}/{j}/{k}/{l}/x/y/z/w/u/t", h)
	}
	if c.Refused {
		_, _ = f.Handle("GET", "/static", h)
		_, _ = f.Delete("GET", "/never/registered")
		_, _ = f.Update("POST", "/never/registered", h)
		_ = f.Updates(func(txn *fox.Txn) error {
			_, _ = txn.Handle("GET", "/given/up", h)
			return errors.New("given up")
		})
		wt := f.Txn(true)
		_, _ = wt.Handle("GET", "/given/up/too", h)
		wt.Abort()
	}
	go func() {
		defer close(writerDone)
		body := func(txn *fox.Txn) {
			switch c.Stage {
			case "after-writes", "inside-updates":
				for i := 0; i < c.Writes; i++ {
					_, _ = txn.Handle("GET", fmt.Sprintf("/parked/%d/{p}", i), h)
				}
				if c.Writes > 1 {
					_, _ = txn.Delete("GET", "/parked/0/{p}")
					_, _ = txn.Update("POST", "/static", h)
				}
			case "after-iter":
				_, _ = txn.Handle("GET", "/parked/it", h)
				for range txn.Iter().All() {
				}
			case "after-snapshot":
				_, _ = txn.Handle("GET", "/parked/snap", h)
				// more parameters and a deeper tree than anything committed: the snapshot's shape exceeds its base tree's
				_, _ = txn.Handle("GET", "/parked/snap/{a}/{b}/{c}/{d}/{e}/{f}/{g}/x/y/z", h)
				s := txn.Snapshot()
				s.Has("GET", "/parked/snap")
				snap = s
			}
			close(parked)
			<-release
		}
		if c.Stage == "inside-updates" {
			_ = f.Updates(func(txn *fox.Txn) error { body(txn); return nil })
			return
		}
		txn := f.Txn(true)
		body(txn)
		txn.Commit()
	}()
	select {
	case <-parked:
	case <-time.After(20 * time.Second):
		inconclusive = true
		stats.MarkInconclusive("writer did not reach its parking point")
		return fmt.Errorf("%s: the writer did not reach its parking point (inconclusive)", desc)
	}
	// every read entry point, each in its own goroutine, while the writer is parked
	rs := reads(f, host)
	if snap != nil {
		req := httptest.NewRequest("GET", "http://"+host+"/parked/snap/1/2/3/4/5/6/7/x/y/z", nil)
		rs = append(rs,
			read{"snapshot of the parked transaction: Has/Route/Len", func() { snap.Has("GET", "/parked/snap"); snap.Route("GET", "/static"); snap.Len() }},
			read{"snapshot of the parked transaction: Reverse", func() {
				snap.Reverse("GET", host, "/parked/snap/1/2/3/4/5/6/7/x/y/z")
				snap.Reverse("GET", host, "/r/1/x")
			}},
			read{"snapshot of the parked transaction: Lookup", func() {
				if _, cc, _ := snap.Lookup(rt.Writer(httptest.NewRecorder(), req), req); cc != nil {
					cc.Close()
				}
			}},
			read{"snapshot of the parked transaction: Iter", func() {
				it := snap.Iter()
				for range it.All() {
				}
				for range it.Reverse(it.Methods(), host, "/parked/snap/1/2/3/4/5/6/7/x/y/z") {
				}
			}},
			read{"snapshot of the parked transaction: Snapshot", func() { snap.Snapshot().Has("GET", "/static") }},
		)
	}
	oreq := httptest.NewRequest("GET", "http://"+host+"/r/1/x", nil)
	rs = append(rs,
		read{"read-only transaction opened before the tree grew: Reverse/Has/Len", func() {
			old.Reverse("GET", host, "/r/1/x")
			old.Reverse("GET", "", "/static")
			old.Has("GET", "/static")
			old.Len()
		}},
		read{"read-only transaction opened before the tree grew: Lookup", func() {
			if _, cc, _ := old.Lookup(rt.Writer(httptest.NewRecorder(), oreq), oreq); cc != nil {
				cc.Close()
			}
		}},
		read{"read-only transactions and View asked about verbs other than GET/POST/PUT/DELETE (first such question on their tree)", func() {
			old.Has("PATCH", "/static")
			old.Route("MKCOL", "/static")
			_ = f.View(func(txn *fox.Txn) error {
				txn.Has("PROPFIND", "/static")
				txn.Route("BREW", "/third/pot")
				txn.Has("LOCK", "/r/{id}/x")
				for range txn.Iter().Routes(slices.Values([]string{"PATCH", "BREW"}), "/static") {
				}
				return nil
			})
			rtx := f.Txn(false)
			rtx.Route("HEAD", "/static")
			rtx.Snapshot().Has("TRACE", "/static")
			rtx.Abort()
		}},
		read{"iterator taken before the tree grew: Reverse/All", func() {
			for range oldIt.Reverse(oldIt.Methods(), host, "/r/1/x") {
			}
			for range oldIt.All() {
			}
		}},
	)
	var done []chan struct{}
	var names []string
	for _, r := range rs {
		d := make(chan struct{})
		done = append(done, d)
		names = append(names, r.name)
		go runRead(r.fn, d)
	}
	if err := waitAll(done, names, desc); err != nil {
		close(release)
		return err
	}
	if count {
		for _, r := range rs {
			stats.Eval()
			stats.NonTrivial(fmt.Sprintf("%s|%s|%+v", r.name, c.Stage, *c))
		}
		stats.Class("stage:" + c.Stage)
	}
	// writers wait for writers: a second write must not complete while the first transaction is open
	var second atomic.Bool
	secondDone := make(chan struct{})
	go func() {
		defer close(secondDone)
		_, _ = f.Handle("GET", "/second/writer", h)
		second.Store(true)
	}()
	for i := 0; i < 20; i++ {
		runtime.Gosched()
	}
	time.Sleep(2 * time.Millisecond)
	if second.Load() {
		close(release)
		return fmt.Errorf("%s: a second write completed while the first write transaction was still open", desc)
	}
	close(release)
	for _, ch := range []chan struct{}{writerDone, secondDone} {
		select {
		case <-ch:
		case <-time.After(20 * time.Second):
			inconclusive = true
			stats.MarkInconclusive("writers did not finish after release")
			return fmt.Errorf("%s: writers did not finish after release (inconclusive)", desc)
		}
	}
	if !f.Has("GET", "/second/writer") {
		return fmt.Errorf("%s: the second writer's route is missing after both transactions finished", desc)
	}
	// writers wait only for other writers: with a View callback parked mid-way, a read-only transaction open and an iterator
	// suspended, writes of every kind complete - growing, replacing and shrinking the route set, singly and in a transaction
	rtx := f.Txn(false)
	next, stop := iterPull(f)
	next()
	viewParked, viewRelease, viewDone := make(chan struct{}), make(chan struct{}), make(chan struct{})
	go func() {
		defer close(viewDone)
		_ = f.View(func(txn *fox.Txn) error {
			txn.Has("GET", "/static")
			close(viewParked)
			<-viewRelease
			txn.Len()
			return nil
		})
	}()
	cleanup := func() {
		close(viewRelease)
		stop()
		rtx.Abort()
	}
	select {
	case <-viewParked:
	case <-time.After(20 * time.Second):
		cleanup()
		inconclusive = true
		stats.MarkInconclusive("the View callback did not start")
		return fmt.Errorf("%s: the View callback did not start (inconclusive)", desc)
	}
	writes := []read{
		{"Router.Handle", func() { _, _ = f.Handle("GET", "/third/writer", h); _, _ = f.Handle("BREW", "/third/pot", h) }},
		{"Router.Update", func() { _, _ = f.Update("GET", "/third/writer", h) }},
		{"Router.Delete", func() { _, _ = f.Delete("GET", "/third/writer") }},
		{"Router.Updates registering two routes and deleting three", func() {
			_ = f.Updates(func(txn *fox.Txn) error {
				_, _ = txn.Handle("GET", "/third/a", h)
				_, _ = txn.Handle("GET", "/third/b", h)
				_, _ = txn.Delete("GET", "/third/a")
				_, _ = txn.Delete("GET", "/third/b")
				_, _ = txn.Delete("GET", "/second/writer")
				return nil
			})
		}},
		{"Router.Updates truncating a method", func() { _ = f.Updates(func(txn *fox.Txn) error { return txn.Truncate("BREW") }) }},
		{"Txn(true) ... Commit after an Update only", func() {
			txn := f.Txn(true)
			defer txn.Abort()
			_, _ = txn.Update("POST", "/static", h)
			txn.Commit()
		}},
	}
	for _, w := range writes {
		d := make(chan struct{})
		go runRead(w.fn, d)
		if err := waitFor([]chan struct{}{d}, []string{w.name}, desc, "write", "while only a View callback, a read-only transaction and a suspended iterator were open", "writer"); err != nil {
			cleanup()
			return err
		}
		if count {
			stats.Eval()
			stats.NonTrivial(fmt.Sprintf("write:%s|%s|%+v", w.name, c.Stage, *c))
		}
	}
	cleanup()
	select {
	case <-viewDone:
	case <-time.After(20 * time.Second):
		inconclusive = true
		stats.MarkInconclusive("the View callback did not return after release")
		return fmt.Errorf("%s: the View callback did not return after release (inconclusive)", desc)
	}
	return nil
}

func iterPull(f *fox.Router) (func(), func()) {
	ch := make(chan struct{})
	quit := make(chan struct{})
	go func() {
		for range f.Iter().All() {
			select {
			case ch <- struct{}{}:
			case <-quit:
				return
			}
		}
		close(ch)
	}()
	return func() { <-ch }, func() { close(quit) }
}

func genCase(t *rapid.T) *Case {
	return &Case{
		Stage: gen.Pick(t, stages, "stage"), Writes: gen.IntR(t, 0, 6, "writes"),
		TS: gen.Pick(t, []int{rt.TSNone, rt.TSIgnore, rt.TSRedirect}, "ts"), NoMethod: gen.Chance(t, 1, 2, "nm"), AutoOptions: gen.Chance(t, 1, 2, "ao"),
		Resolver: gen.Chance(t, 1, 2, "res"), Middleware: gen.IntR(t, 0, 3, "mw"), Hostnames: gen.Chance(t, 1, 3, "hosts"),
		Deep:  gen.Pick(t, []int{0, 0, 8, 24, 25, 26, 40, 120}, "deep"),
		Empty: gen.Pick(t, []string{"", "", "", "fresh", "truncated", "partly"}, "empty"),
		Verbs: gen.Pick(t, []int{0, 0, 1, 2, 3}, "verbs"), Refused: gen.Chance(t, 1, 3, "refused"),
	}
}

func fail(t interface{ Fatalf(string, ...any) }, c *Case, err error) {
	stats.Fail("parked-writer", c, "%v", err)
	if inconclusive {
		fmt.Println("INCONCLUSIVE-TIMEOUT", err)
	}
	t.Fatalf("%v", err)
}

// TestMatrix: the full entry point x stage matrix with default and "everything on" options.
func TestMatrix(t *testing.T) {
	for _, st := range stages {
		for _, c := range []*Case{{Stage: st, Writes: 3}, {Stage: st, Writes: 5, TS: rt.TSRedirect, NoMethod: true, AutoOptions: true, Resolver: true, Middleware: 2, Hostnames: true},
			{Stage: st, Writes: 3, Deep: 40}, {Stage: st, Writes: 2, TS: rt.TSIgnore, Hostnames: true, Deep: 64},
			{Stage: st, Writes: 3, Empty: "fresh", NoMethod: true, AutoOptions: true}, {Stage: st, Writes: 2, Empty: "truncated", Deep: 8}, {Stage: st, Writes: 2, Empty: "partly", Hostnames: true},
			{Stage: st, Writes: 2, Verbs: 2}, {Stage: st, Writes: 2, Refused: true}, {Stage: st, Writes: 3, Refused: true, Hostnames: true, Empty: "truncated"}, {Stage: st, Writes: 3, Verbs: 3, Hostnames: true, NoMethod: true, AutoOptions: true}} {
			stats.Sample(c)
			if err := checkCase(c, true); err != nil {
				fail(t, c, err)
			}
		}
	}
}

func TestRandomOptions(t *testing.T) {
	rapid.Check(t, func(t *rapid.T) {
		c := genCase(t)
		if err := checkCase(c, true); err != nil {
			fail(t, c, err)
		}
	})
}

// blockProfile: readers hammer every read entry point while a writer stream commits; no block-profile
// record may show a reader blocked in a wait called directly by a fox frame.
func blockProfile(d time.Duration) error {
	c := &Case{Stage: "opened", TS: rt.TSIgnore, NoMethod: true, AutoOptions: true, Middleware: 1, Deep: 40}
	f, err := build(c)
	if err != nil {
		return nil
	}
	runtime.SetBlockProfileRate(1)
	defer runtime.SetBlockProfileRate(0)
	stop := make(chan struct{})
	var wg sync.WaitGroup
	var n atomic.Int64
	for i := 0; i < 6; i++ {
		wg.Add(1)
		go readerLoop(f, stop, &wg, &n)
	}
	h := func(fox.Context) {}
	wg.Add(1)
	go func() {
		defer wg.Done()
		i := 0
		for {
			select {
			case <-stop:
				return
			default:
			}
			i++
			_ = f.Updates(func(txn *fox.Txn) error {
				_, _ = txn.Handle("GET", fmt.Sprintf("/w/%d/{p}", i%50), h)
				_, _ = txn.Delete("GET", fmt.Sprintf("/w/%d/{p}", (i+25)%50))
				time.Sleep(50 * time.Microsecond) // hold the writer lock for a while
				return nil
			})
		}
	}()
	time.Sleep(d)
	close(stop)
	wg.Wait()
	var buf bytes.Buffer
	if err := pprof.Lookup("block").WriteTo(&buf, 1); err != nil {
		return nil
	}
	stats.EvalN(int(n.Load()))
	stats.ClassN("block-profile:reads-executed", int(n.Load()))
	records := 0
	for _, rec := range strings.Split(buf.String(), "\n\n") {
		if !strings.Contains(rec, "c06.readerLoop") {
			continue
		}
		records++
		// frames are listed innermost first as "#\t0x... \tfunc+0x..\tfile:line"
		var frames, files []string
		for _, l := range strings.Split(rec, "\n") {
			if strings.HasPrefix(l, "#\t") {
				parts := strings.Split(l, "\t")
				if len(parts) >= 3 {
					frames = append(frames, strings.TrimSpace(parts[2]))
					if len(parts) >= 4 {
						files = append(files, strings.TrimSpace(parts[3]))
					} else {
						files = append(files, "")
					}
				}
			}
		}
		for i, fr := range frames {
			isWait := false
			for _, p := range waitPrims {
				if strings.HasPrefix(fr, p) {
					isWait = true
				}
			}
			if !isWait || i+1 >= len(frames) {
				continue
			}
			if foxFrame(frames[i+1], files[i+1]) {
				return fmt.Errorf("block profile: a reader blocked in %s called directly by %s:\n%s", fr, frames[i+1], rec)
			}
		}
	}
	stats.ClassN("block-profile:records-on-reader-stacks", records)
	return nil
}

func readerLoop(f *fox.Router, stop chan struct{}, wg *sync.WaitGroup, n *atomic.Int64) {
	defer wg.Done()
	rs := reads(f, "example.com")
	for {
		for _, r := range rs {
			select {
			case <-stop:
				return
			default:
			}
			r.fn()
			n.Add(1)
		}
	}
}

func TestBlockProfile(t *testing.T) {
	ms := stats.EnvInt("C06_BLOCK_MS", 2000)
	if err := blockProfile(time.Duration(ms) * time.Millisecond); err != nil {
		stats.Fail("block-profile", map[string]int{"millis": ms}, "%v", err)
		t.Fatalf("%v", err)
	}
	stats.NonTrivial("block-profile")
	stats.NonTrivial(fmt.Sprintf("block-profile|%d", ms))
}
