ENTRY = {
    "C06": dict(
        pkg="c06", level="exploration",
        technique="parked-writer experiment over the matrix read entry point x writer stage x generated router options, with a goroutine-dump verdict, plus a block-profile invariant under a busy writer stream",
        level_text="A write transaction is parked (on a channel) just after opening, after uncommitted writes, inside Updates, after Txn.Iter and after Txn.Snapshot; while it is "
                   "parked every exported read entry point (ServeHTTP for each outcome class, Lookup, Reverse, Has, Route, Len, Stats, NewRoute, Iter.Methods/All/Prefix/Routes/Reverse, "
                   "View, read-only Txn and Snapshot methods) runs in its own goroutine and must complete; a second writer must not complete before release, and writes of six kinds "
                   "(growing, replacing, shrinking, truncating, transactional) must complete while a View callback is parked mid-way, a read-only transaction is open and an iterator is suspended. Options are generated (trailing-slash modes, 405/OPTIONS, resolver, middleware, hostnames). "
                   "With the block profile at rate 1, readers looping against a committing writer must leave no record of a wait called directly from a fox frame.",
        level_note="The property's clause about every call path statically reachable from the read entry points is a static reachability question that generated inputs cannot decide; "
                   "covered instead: every exported read entry point x outcome class x writer stage. A read that does not finish is only a violation if the goroutine dump shows it "
                   "blocked in a sync/channel primitive below a fox frame; otherwise exit 2.",
        level_more='Later additions: uncommon verbs with roots of their own, refused and aborted writes right before the writer parks, readers pinned to an older tree, prefix probes and uncommon verbs through read-only transactions.',
        rule="cases: (read entry point, writer stage, option set) triples; every triple is non-trivial (a writer is parked); distinct by the triple",
        assumptions=["20 s is enough for a lock-free read on any machine; the verdict is the goroutine state, not the timeout"],
        quick=[REPLAY,
               R("matrix", "^(TestMatrix|TestRandomOptions)$", checks=40, shrinktime="3s", timeout=600),
               R("block-profile", "^TestBlockProfile$", env={"C06_BLOCK_MS": 2000}, timeout=600)],
        thorough=[REPLAY,
                  R("matrix", "^(TestMatrix|TestRandomOptions)$", checks=400, shards=8, shrinktime="3s", timeout=3000),
                  R("block-profile", "^TestBlockProfile$", env={"C06_BLOCK_MS": 60000}, timeout=3000),
                  R("block-profile-race", "^TestBlockProfile$", race=True, env={"C06_BLOCK_MS": 20000}, timeout=3000)],
    ),
}
